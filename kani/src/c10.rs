//! C10 — resource descriptors and templates are correctly framed and valued (ACPI 6.5 6.4).
use crate::common::*;
use acpi_tables::aml::*;
use acpi_tables::Aml;

pub mod c10 {
    use super::*;

    /// small item: tag bits 2:0 = length; large item: tag bit 7 set, 16-bit length follows.
    /// returns (payload length stated, header size)
    fn item_len(b: &[u8], off: usize) -> (usize, usize) {
        if b[off] & 0x80 != 0 {
            (u16::from_le_bytes([b[off + 1], b[off + 2]]) as usize, 3)
        } else {
            ((b[off] & 7) as usize, 1)
        }
    }

    #[kani::proof]
    #[kani::unwind(16)]
    pub fn q_memory32fixed() {
        let rw: bool = kani::any();
        let base: u32 = kani::any();
        let len: u32 = kani::any();
        let r: Rec<14> = Rec::of(&Memory32Fixed::new(rw, base, len));
        let mut e: Exp<14> = Exp::new();
        e.u8(0x86).u16(9).u8(rw as u8).u32(base).u32(len);
        let (pl, hs) = item_len(&r.buf, 0);
        verdicts! {
            "C10: Memory32Fixed = 0x86, length 9, RW, base, length": r.eq_bytes(&e.b, e.n),
            "C10: descriptor length field equals the payload bytes that follow": hs + pl == r.len,
        }
        kani::cover!(true, "REACHED");
    }

    #[kani::proof]
    #[kani::unwind(12)]
    pub fn q_io() {
        let min: u16 = kani::any();
        let max: u16 = kani::any();
        let al: u8 = kani::any();
        let ln: u8 = kani::any();
        let r: Rec<10> = Rec::of(&IO::new(min, max, al, ln));
        let mut e: Exp<10> = Exp::new();
        e.u8(0x47).u8(1).u16(min).u16(max).u8(al).u8(ln);
        let (pl, hs) = item_len(&r.buf, 0);
        verdicts! {
            "C10: IO = 0x47, Decode16, min, max, alignment, length": r.eq_bytes(&e.b, e.n),
            "C10: descriptor length field equals the payload bytes that follow": hs + pl == r.len,
        }
        kani::cover!(true, "REACHED");
    }

    #[kani::proof]
    #[kani::unwind(14)]
    pub fn q_interrupt() {
        let c: bool = kani::any();
        let edge: bool = kani::any();
        let low: bool = kani::any();
        let sh: bool = kani::any();
        let n: u32 = kani::any();
        let r: Rec<12> = Rec::of(&Interrupt::new(c, edge, low, sh, n));
        let mut e: Exp<12> = Exp::new();
        // flags: bit0 consumer, bit1 edge, bit2 active-low, bit3 shared
        e.u8(0x89).u16(6).u8((c as u8) | ((edge as u8) << 1) | ((low as u8) << 2) | ((sh as u8) << 3)).u8(1).u32(n);
        let (pl, hs) = item_len(&r.buf, 0);
        verdicts! {
            "C10: Extended Interrupt = 0x89, length 6, flags, table length 1, number": r.eq_bytes(&e.b, e.n),
            "C10: descriptor length field equals the payload bytes that follow": hs + pl == r.len,
        }
        kani::cover!(true, "REACHED");
    }

    #[kani::proof]
    #[kani::unwind(20)]
    pub fn q_register() {
        let (g, ge) = crate::kinds::sym_gas();
        let r: Rec<18> = Rec::of(&Register::new(g));
        let mut e: Exp<18> = Exp::new();
        // Generic Register Descriptor: 0x82, length 0x000C, space id, bit width, bit offset, access size, address
        e.u8(0x82).u16(12).append(&ge);
        let (pl, hs) = item_len(&r.buf, 0);
        verdicts! {
            "C10: Generic Register = 0x82, length 12, GAS fields": r.eq_bytes(&e.b, e.n),
            "C10: descriptor length field equals the payload bytes that follow": hs + pl == r.len,
        }
        kani::cover!(true, "REACHED");
    }

    /// address space descriptors; kind: 0 memory, 1 IO, 2 bus number
    macro_rules! addr_harness {
        ($name:ident, $t:ty, $tag:expr, $w:expr, $kind:expr, $put:ident) => {
            #[kani::proof]
            #[kani::unwind(52)]
            pub fn $name() {
                let min: $t = kani::any();
                let max: $t = kani::any();
                // documented domain: min <= max and a representable range size
                kani::assume(min <= max && !(min == 0 && max == <$t>::MAX));
                let tr: $t = kani::any();
                let has_tr: bool = kani::any();
                let cache: u8 = kani::any();
                kani::assume(cache <= 3);
                let rw: bool = kani::any();
                let c = match cache {
                    0 => AddressSpaceCacheable::NotCacheable,
                    1 => AddressSpaceCacheable::Cacheable,
                    2 => AddressSpaceCacheable::WriteCombining,
                    _ => AddressSpaceCacheable::PreFetchable,
                };
                let tro = if has_tr { Some(tr) } else { None };
                let (a, tflags, etr): (AddressSpace<$t>, u8, $t) = match $kind {
                    0 => (AddressSpace::new_memory(c, rw, min, max, tro), (cache << 1) | rw as u8, if has_tr { tr } else { 0 }),
                    1 => (AddressSpace::new_io(min, max, tro), 3, if has_tr { tr } else { 0 }),
                    _ => (AddressSpace::new_bus_number(min, max), 0, 0),
                };
                let r: Rec<48> = Rec::of(&a);
                let mut e: Exp<48> = Exp::new();
                // tag, length = 3 + 5 fields, resource type, general flags (MinFixed|MaxFixed), type flags
                e.u8($tag).u16(3 + 5 * $w).u8($kind).u8(0x0c).u8(tflags);
                e.$put(0).$put(min).$put(max).$put(etr).$put(max - min + 1);
                let (pl, hs) = item_len(&r.buf, 0);
                verdicts! {
                    "C10: address space descriptor = tag, length, type, MinFixed|MaxFixed, type flags, granularity, min, max, translation, max-min+1": r.eq_bytes(&e.b, e.n),
                    "C10: descriptor length field equals the payload bytes that follow": hs + pl == r.len,
                }
                kani::cover!(true, "REACHED");
            }
        };
    }
    addr_harness!(q_word_memory, u16, 0x88, 2, 0u8, u16);
    addr_harness!(q_word_io, u16, 0x88, 2, 1u8, u16);
    addr_harness!(q_word_bus, u16, 0x88, 2, 2u8, u16);
    addr_harness!(q_dword_memory, u32, 0x87, 4, 0u8, u32);
    addr_harness!(q_dword_io, u32, 0x87, 4, 1u8, u32);
    addr_harness!(t_dword_bus, u32, 0x87, 4, 2u8, u32);
    addr_harness!(q_qword_memory, u64, 0x8a, 8, 0u8, u64);
    addr_harness!(q_qword_io, u64, 0x8a, 8, 1u8, u64);
    addr_harness!(t_qword_bus, u64, 0x8a, 8, 2u8, u64);

    macro_rules! kids {
        (0, $a:ident, $b:ident, $c:ident) => { vec![] };
        (1, $a:ident, $b:ident, $c:ident) => { vec![&$a as &dyn Aml] };
        (2, $a:ident, $b:ident, $c:ident) => { vec![&$a as &dyn Aml, &$b] };
        (3, $a:ident, $b:ident, $c:ident) => { vec![&$a as &dyn Aml, &$b, &$c] };
    }

    /// template lemma with k opaque children of concrete sizes: 11 PkgLength <size-int> children 79 00
    macro_rules! template_blobs {
        ($name:ident, $k:tt, [$la:expr, $lb:expr, $lc:expr], $total:expr, $unw:expr) => {
            #[kani::proof]
            #[kani::unwind($unw)]
            pub fn $name() {
                let a = Blob::<$la>::any_len($la);
                let b = Blob::<$lb>::any_len($lb);
                let c = Blob::<$lc>::any_len($lc);
                let _ = (&a, &b, &c);
                let children: Vec<&dyn Aml> = kids!($k, a, b, c);
                let r: Rec<{ $total + 12 }> = Rec::of(&ResourceTemplate::new(children));
                let mut body: Exp<{ $total + 2 }> = Exp::new();
                body.blob(&a).blob(&b).blob(&c);
                body.u8(0x79).u8(0);
                let mut inner: Exp<{ $total + 8 }> = Exp::new();
                ref_int(&mut inner, ($total + 2) as u64);
                inner.append(&body);
                let e: Exp<{ $total + 12 }> = ref_pkg_object(&[0x11u8], &inner);
                verdicts! {
                    "C10: template PkgLength closes on the end tag": pkg_closes(&r, 1),
                    "C10: template = BufferOp PkgLength BufferSize(narrowest int of payload+2) children EndTag 0x79 0x00": r.eq_bytes(&e.b, e.n),
                }
                kani::cover!(true, "REACHED");
            }
        };
    }
    template_blobs!(q_template_empty, 0, [0, 0, 0], 0, 20);
    template_blobs!(q_template_1blob, 1, [5, 0, 0], 5, 24);
    template_blobs!(q_template_3blobs, 3, [2, 0, 3], 5, 24);
    // PkgLength 1 -> 2 bytes: payload + 2 + size-int(2) + 1 crosses 63
    template_blobs!(q_template_size56, 1, [56, 0, 0], 56, 80);
    template_blobs!(q_template_size57, 1, [57, 0, 0], 57, 80);
    template_blobs!(q_template_size58, 2, [30, 28, 0], 58, 80);
    template_blobs!(t_template_size59, 1, [59, 0, 0], 59, 80);
    template_blobs!(t_template_size60, 1, [60, 0, 0], 60, 80);
    // size-int Byte -> Word at payload + 2 = 256
    template_blobs!(q_template_size253, 1, [253, 0, 0], 253, 280);
    template_blobs!(q_template_size254, 1, [254, 0, 0], 254, 280);
    template_blobs!(t_template_size255, 2, [200, 55, 0], 255, 280);

    /// walk a template's payload by the descriptors' own length fields; must end on the end tag
    fn walk_template<const N: usize>(r: &Rec<N>, expect_tags: &[u8]) -> (bool, bool) {
        let (_pl, pn, _f) = decode_pkglen(&r.buf, 1);
        let (size, sn, sok) = decode_int(&r.buf, 1 + pn);
        let start = 1 + pn + sn;
        let mut off = start;
        let mut tags_ok = true;
        let mut k = 0;
        while k < expect_tags.len() {
            if off >= r.len || r.buf[off] != expect_tags[k] {
                tags_ok = false;
                return (false, tags_ok);
            }
            let (pl, hs) = item_len(&r.buf, off);
            off += hs + pl;
            k += 1;
        }
        let end_ok = off + 2 == r.len && r.buf[off] == 0x79 && r.buf[off + 1] == 0 && sok && size as usize == r.len - start;
        (end_ok, tags_ok)
    }

    macro_rules! template_real {
        ($name:ident, [$($mk:expr => $tag:expr),+]) => {
            #[kani::proof]
            #[kani::unwind(140)]
            pub fn $name() {
                let kids: Vec<Box<dyn Aml>> = vec![$(Box::new($mk)),+];
                let refs: Vec<&dyn Aml> = kids.iter().map(|k| k.as_ref()).collect();
                let r: Rec<130> = Rec::of(&ResourceTemplate::new(refs));
                let tags = [$($tag),+];
                let (end_ok, tags_ok) = walk_template(&r, &tags);
                verdicts! {
                    "C10: template PkgLength closes on the end tag": pkg_closes(&r, 1) && r.fits(),
                    "C10: walk by the descriptors' own length fields visits the children in order": tags_ok,
                    "C10: walk tiles the payload exactly and ends on EndTag; declared buffer size equals the payload": end_ok,
                }
                kani::cover!(true, "REACHED");
            }
        };
    }
    fn mem32() -> Memory32Fixed {
        Memory32Fixed::new(kani::any(), kani::any(), kani::any())
    }
    fn io() -> IO {
        IO::new(kani::any(), kani::any(), kani::any(), kani::any())
    }
    fn irq() -> Interrupt {
        Interrupt::new(kani::any(), kani::any(), kani::any(), kani::any(), kani::any())
    }
    fn reg() -> Register {
        Register::new(crate::kinds::sym_gas().0)
    }
    fn wbus() -> AddressSpace<u16> {
        let min: u16 = kani::any();
        let max: u16 = kani::any();
        kani::assume(min <= max && !(min == 0 && max == u16::MAX));
        AddressSpace::new_bus_number(min, max)
    }
    fn dmem() -> AddressSpace<u32> {
        let min: u32 = kani::any();
        let max: u32 = kani::any();
        kani::assume(min <= max && !(min == 0 && max == u32::MAX));
        AddressSpace::new_memory(AddressSpaceCacheable::Cacheable, kani::any(), min, max, None)
    }
    fn qio() -> AddressSpace<u64> {
        let min: u64 = kani::any();
        let max: u64 = kani::any();
        kani::assume(min <= max && !(min == 0 && max == u64::MAX));
        AddressSpace::new_io(min, max, Some(kani::any()))
    }
    template_real!(q_tpl_mem32, [mem32() => 0x86u8]);
    template_real!(q_tpl_io_irq, [io() => 0x47u8, irq() => 0x89]);
    template_real!(q_tpl_reg_wbus, [reg() => 0x82u8, wbus() => 0x88]);
    template_real!(q_tpl_dmem_qio_mem32, [dmem() => 0x87u8, qio() => 0x8a, mem32() => 0x86]);
    template_real!(q_tpl_irq_reg_io, [irq() => 0x89u8, reg() => 0x82, io() => 0x47]);
    template_real!(t_tpl_wbus_dmem, [wbus() => 0x88u8, dmem() => 0x87]);
    template_real!(t_tpl_qio_irq, [qio() => 0x8au8, irq() => 0x89]);
    template_real!(t_tpl_mem32_reg_wbus, [mem32() => 0x86u8, reg() => 0x82, wbus() => 0x88]);
    template_real!(t_tpl_io_qio_dmem, [io() => 0x47u8, qio() => 0x8a, dmem() => 0x87]);
}
