//! Fixed-size tables and header-less structures (no add operations): SPCR, BERT, TCPA client,
//! TCPA server (builder chain), TPM2 (with / without log area), FADT (builder chain), FACS, RSDP.
//! P=1 C01, P=2 C02, P=4 C04.
use crate::common::*;
use crate::kinds::sym_gas;
use acpi_tables::Aml;

pub fn fixed_verdicts<const P: u8, const N: usize>(r: &Rec<N>, e: &Exp<N>) {
    assert!(r.fits(), "harness: recorder large enough");
    if P == 1 {
        assert!(r.buf[9].wrapping_add(r.sum_skip9()) == 0, "C01: emitted table bytes sum to 0 mod 256");
    } else if P == 2 {
        assert!(r.u32(4) as usize == r.len, "C02: Length field at offset 4 equals the bytes emitted");
    } else if P == 4 {
        let mut same = r.len == e.n;
        let mut i = 0;
        while i < N {
            if i < e.n && !(i >= 4 && i <= 9) && r.buf[i] != e.b[i] {
                same = false;
            }
            i += 1;
        }
        assert!(same, "C04: image equals the specification-derived reference encoding");
    }
}

/// SPCR revision 4, SBI console: interface type 0x15, no address, no interrupt, PCI ids 0xFFFF,
/// namespace string "." at offset 88 (offset is from the start of the table), length 2.
pub fn spcr<const P: u8>() {
    let oem = sym_oem();
    let t = acpi_tables::spcr::SPCR::sbi(oem.0, oem.1, oem.2);
    let r: Rec<96> = Rec::of(&t);
    let mut e: Exp<96> = Exp::new();
    ref_header(&mut e, b"SPCR", 90, 4, &oem);
    e.u8(0x15).zeros(3); // interface type, reserved
    e.zeros(12); // base address GAS: all zero
    e.u8(0).u8(0).u32(0); // interrupt type, irq, gsi
    e.u8(0).u8(0).u8(0).u8(0).u8(0).u8(0); // baud, parity, stop bits, flow control, terminal type, language
    e.u16(0xffff).u16(0xffff); // PCI device id, vendor id
    e.u8(0).u8(0).u8(0).u32(0).u8(0); // bus, device, function, flags, segment
    e.u32(0).u32(0); // UART clock frequency, precise baud rate
    e.u16(2).u16(88); // namespace string length, offset
    e.u8(b'.').u8(0);
    if P == 4 {
        assert!(r.buf[8] == 4, "C04: SPCR table revision matches the revision-4 layout emitted");
    }
    fixed_verdicts::<P, 96>(&r, &e);
    kani::cover!(true, "REACHED");
}

pub fn bert<const P: u8>() {
    let oem = sym_oem();
    let len: u32 = kani::any();
    let base: u64 = kani::any();
    let t = acpi_tables::bert::BERT::new(oem.0, oem.1, oem.2, len, base);
    let r: Rec<52> = Rec::of(&t);
    let mut e: Exp<52> = Exp::new();
    ref_header(&mut e, b"BERT", 48, 1, &oem);
    e.u32(len).u64(base);
    fixed_verdicts::<P, 52>(&r, &e);
    kani::cover!(true, "REACHED");
}

pub fn tcpa_client<const P: u8>() {
    let oem = sym_oem();
    let laml: u32 = kani::any();
    let lasa: u64 = kani::any();
    let t = acpi_tables::tpm2::TpmClient1_2::new(oem.0, oem.1, oem.2, laml, lasa);
    let r: Rec<56> = Rec::of(&t);
    let mut e: Exp<56> = Exp::new();
    ref_header(&mut e, b"TCPA", 50, 2, &oem);
    e.u16(0).u32(laml).u64(lasa);
    fixed_verdicts::<P, 56>(&r, &e);
    kani::cover!(true, "REACHED");
}

/// model of the TCPA server table fields a builder chain can touch
#[derive(Clone, Copy)]
pub struct ServerModel {
    pub laml: u64,
    pub lasa: u64,
    pub dev_flags: u8,
    pub int_flags: u8,
    pub gpe: u8,
    pub gsi: u32,
    pub base: Exp<12>,
    pub conf: Exp<12>,
    pub sbdf: [u8; 4],
}

/// k builder calls, each a symbolic choice among the nine builders with symbolic arguments
pub fn tcpa_server_chain(k: usize) -> (acpi_tables::tpm2::TpmServer1_2, ServerModel, ([u8; 6], [u8; 8], u32)) {
    let oem = sym_oem();
    let mut t = acpi_tables::tpm2::TpmServer1_2::new(oem.0, oem.1, oem.2);
    let mut z: Exp<12> = Exp::new();
    z.zeros(12);
    let mut m = ServerModel { laml: 0, lasa: 0, dev_flags: 0, int_flags: 0, gpe: 0, gsi: 0, base: z, conf: z, sbdf: [0; 4] };
    let mut i = 0;
    while i < k {
        let op: u8 = kani::any();
        kani::assume(op < 9);
        match op {
            0 => {
                let a: u64 = kani::any();
                let b: u64 = kani::any();
                t = t.log_area(a, b);
                m.laml = a;
                m.lasa = b;
            }
            1 => {
                t = t.active_low();
                m.int_flags |= 1 << 1;
            }
            2 => {
                t = t.edge_triggered();
                m.int_flags |= 1 << 0;
            }
            3 => {
                let g: u8 = kani::any();
                t = t.sci_gpe(g);
                m.gpe = g;
                m.int_flags |= 1 << 2;
            }
            4 => {
                let g: u32 = kani::any();
                t = t.gsi(g);
                m.gsi = g;
                m.int_flags |= 1 << 3;
            }
            5 => {
                t = t.bus_is_pnp();
                m.dev_flags |= 1 << 1;
            }
            6 => {
                let s: u8 = kani::any();
                let b: u8 = kani::any();
                let (d, f) = crate::kinds::any_dev_fn();
                t = t.pci_sbdf(s, b, d, f);
                m.sbdf = [s, b, d, f];
                m.dev_flags |= 1 << 0;
            }
            7 => {
                let (g, ge) = sym_gas();
                t = t.base_addr(g);
                m.base = ge;
            }
            _ => {
                let (g, ge) = sym_gas();
                t = t.config_addr(g);
                m.conf = ge;
                m.dev_flags |= 1 << 2;
            }
        }
        i += 1;
    }
    (t, m, oem)
}

pub fn tcpa_server_exp(m: &ServerModel, oem: &([u8; 6], [u8; 8], u32)) -> Exp<104> {
    let mut e: Exp<104> = Exp::new();
    ref_header(&mut e, b"TCPA", 100, 2, oem);
    e.u16(1).u16(0).u64(m.laml).u64(m.lasa);
    // TCG spec revision (BCD): byte order not demanded (DESIGN C04); compared loosely by caller
    e.u8(1).u8(2);
    e.u8(m.dev_flags).u8(m.int_flags).u8(m.gpe).zeros(3).u32(m.gsi);
    e.append(&m.base).u32(0).append(&m.conf);
    e.bytes(&m.sbdf);
    e
}

pub fn tcpa_server<const P: u8>(k: usize) {
    let (t, m, oem) = tcpa_server_chain(k);
    let r: Rec<104> = Rec::of(&t);
    let e = tcpa_server_exp(&m, &oem);
    fixed_verdicts::<P, 104>(&r, &e);
    kani::cover!(true, "REACHED");
}

pub fn tpm2<const P: u8>(with_log: bool, twice_guard: bool) {
    use acpi_tables::tpm2::*;
    // C01 with the log-area delta: header concrete but one byte (see common::one_byte_oem)
    let oem = oem_for(P, with_log);
    let (pc, pcc) = sym_enum!(PlatformClass::Client => 0u16, PlatformClass::Server => 1);
    let (sm, smc) = sym_enum!(StartMethod::LegacyUse => 1u32, StartMethod::AcpiStart => 2, StartMethod::Mmio => 6, StartMethod::Crb => 7,
        StartMethod::CrbAndAcpiStart => 8, StartMethod::CrbAndSmcHvc => 11, StartMethod::I2cFifo => 12);
    let base: u64 = kani::any();
    if P == 1 && with_log {
        // delta-maintained sum: keep the constructor operands concrete except one byte
        kani::assume(base & !0xff == 0x0123_4567_89ab_cd00 && pcc == 1 && smc == 7);
    }
    let mut t = Tpm2::new(oem.0, oem.1, oem.2, pc, base, sm);
    let mut e: Exp<80> = Exp::new();
    ref_header(&mut e, b"TPM2", if with_log { 76 } else { 52 }, 1, &oem);
    e.u16(pcc).u16(0).u64(base).u32(smc);
    if with_log {
        let laml: u32 = kani::any();
        let lasa: u64 = kani::any();
        t.set_log_area(laml, lasa);
        e.zeros(12).u32(laml).u64(lasa);
    }
    if twice_guard {
        // a second set_log_area: the crate may refuse it (panic) or perform it; if it returns, the
        // image must describe the second log area and still satisfy the selected property
        let laml2: u32 = kani::any();
        let lasa2: u64 = kani::any();
        kani::cover!(true, "CALLING");
        t.set_log_area(laml2, lasa2);
        e.n -= 12;
        e.u32(laml2).u64(lasa2);
    }
    let r: Rec<80> = Rec::of(&t);
    fixed_verdicts::<P, 80>(&r, &e);
    kani::cover!(true, "REACHED");
}

pub fn facs<const P: u8>() {
    let t = acpi_tables::facs::FACS::new();
    let r: Rec<64> = Rec::of(&t);
    if P == 2 {
        assert!(r.u32(4) == 64 && r.len == 64, "C02: FACS Length field is 64 and 64 bytes are emitted");
    } else if P == 4 {
        // signature, length, hw signature, waking vector, global lock, flags, x waking vector,
        // version (not demanded), reserved, OSPM flags, reserved
        let mut ok = r.buf[0] == b'F' && r.buf[1] == b'A' && r.buf[2] == b'C' && r.buf[3] == b'S';
        let mut i = 8;
        while i < 64 {
            if i != 32 && r.buf[i] != 0 {
                ok = false;
            }
            i += 1;
        }
        assert!(ok, "C04: image equals the specification-derived reference encoding");
    }
    kani::cover!(true, "REACHED");
}

pub fn rsdp<const P: u8>() {
    let oem: [u8; 6] = kani::any();
    let xsdt: u64 = kani::any();
    let t = acpi_tables::rsdp::Rsdp::new(oem, xsdt);
    let r: Rec<36> = Rec::of(&t);
    if P == 1 {
        verdicts! {
            "C01: RSDP first 20 bytes sum to 0": r.sum_range(0, 20) == 0,
            "C01: RSDP all 36 bytes sum to 0": r.sum() == 0 && r.len == 36,
        }
    } else if P == 2 {
        assert!(r.u32(20) == 36 && r.len == 36, "C02: RSDP Length field at offset 20 is 36 and 36 bytes are emitted");
    } else if P == 4 {
        let mut e: Exp<36> = Exp::new();
        e.bytes(b"RSD PTR ").u8(0).bytes(&oem).u8(2).u32(0).u32(36).u64(xsdt).u8(0).zeros(3);
        let mut same = r.len == 36;
        let mut i = 0;
        while i < 36 {
            if i != 8 && i != 32 && r.buf[i] != e.b[i] {
                same = false;
            }
            i += 1;
        }
        assert!(same, "C04: image equals the specification-derived reference encoding");
    }
    kani::cover!(true, "REACHED");
}

/// generic user-defined table: created with a symbolic declared length class, then grown through
/// typed appends and the sink interface (C13 has the full operation algebra; this ties C01/C02 to it)
pub fn sdt<const P: u8>(via_sink: bool) {
    use acpi_tables::sdt::Sdt;
    use acpi_tables::AmlSink;
    let oem = sym_oem();
    let sig: [u8; 4] = kani::any();
    let mut t = Sdt::new(sig, 40, kani::any(), oem.0, oem.1, oem.2);
    let v: u32 = kani::any();
    let w: u16 = kani::any();
    if via_sink {
        (&mut t as &mut dyn AmlSink).byte(kani::any());
        (&mut t as &mut dyn AmlSink).dword(v);
    } else {
        t.append(w);
        t.append_slice(&v.to_le_bytes());
        t.write_u16(38, w);
    }
    let r: Rec<52> = Rec::of(&t);
    let e: Exp<52> = Exp::new();
    if P == 4 {
        kani::cover!(true, "REACHED");
        return;
    }
    fixed_verdicts::<P, 52>(&r, &e);
    kani::cover!(true, "REACHED");
}

/// generic user-defined table: one in-range write of every width at a symbolic offset (the header,
/// the Length field and the checksum byte itself included), then a second one. C13 has the full
/// model; this puts the table's write operations in front of C01's own verdict. (After a write
/// into the Length field "Length == bytes emitted" is not demanded, so P=2 stops here.)
pub fn sdt_write<const P: u8>(kind: u8) {
    use acpi_tables::sdt::Sdt;
    if P != 1 {
        kani::cover!(true, "REACHED");
        return;
    }
    let oem = one_byte_oem();
    let mut t = Sdt::new(*b"TEST", 40, 1, oem.0, oem.1, oem.2);
    let mut step = 0;
    while step < 2 {
        let off: usize = kani::any();
        match kind {
            0 => {
                kani::assume(off <= 39);
                t.write_u8(off, kani::any());
            }
            1 => {
                kani::assume(off <= 38);
                t.write_u16(off, kani::any());
            }
            2 => {
                kani::assume(off <= 36);
                t.write_u32(off, kani::any());
            }
            3 => {
                kani::assume(off <= 32);
                t.write_u64(off, kani::any());
            }
            _ => {
                kani::assume(off <= 37);
                let d: [u8; 3] = kani::any();
                t.write_bytes(off, &d);
            }
        }
        let r: Rec<44> = Rec::of(&t);
        let e: Exp<44> = Exp::new();
        fixed_verdicts::<P, 44>(&r, &e);
        step += 1;
    }
    kani::cover!(true, "REACHED");
}

/// SLIT (ACPI 6.5 5.2.17): header, locality count (8), n*n distances; one symbolic assignment.
/// (C12 has the matrix semantics; this ties the table to C01/C02/C04.)
pub fn slit<const P: u8>() {
    let oem = oem_for(P, true);
    let mut t = acpi_tables::slit::SLIT::new(oem.0, oem.1, oem.2, 2);
    let v: u8 = kani::any();
    t.set_distance(0, 1, v);
    let r: Rec<52> = Rec::of(&t);
    let mut e: Exp<52> = Exp::new();
    ref_header(&mut e, b"SLIT", 48, 1, &oem);
    e.u64(2).u8(10).u8(v).u8(v).u8(10);
    fixed_verdicts::<P, 52>(&r, &e);
    kani::cover!(true, "REACHED");
}

/// Generic Address Structure constructors (ACPI 6.5 5.2.3.2)
pub fn gas_ctors<const P: u8>() {
    use acpi_tables::gas::{AccessSize, GAS};
    if P != 4 {
        kani::cover!(true, "REACHED");
        return;
    }
    let w: u8 = kani::any();
    let dev: u8 = kani::any();
    let func: u8 = kani::any();
    let reg: u16 = kani::any();
    let g = GAS::new_pci_config(w, AccessSize::DwordAccess, dev, func, reg);
    let r: Rec<12> = Rec::of(&g);
    // PCI configuration space address: device in bits 47:32, function in 31:16, register offset in 15:0
    let mut e: Exp<12> = Exp::new();
    e.u8(2).u8(w).u8(0).u8(3).u64(((dev as u64) << 32) | ((func as u64) << 16) | reg as u64);
    // the fixed-layout GenericAddress helpers of sdt.rs
    use acpi_tables::sdt::GenericAddress as GA;
    use zerocopy::IntoBytes;
    let a: u64 = kani::any();
    let p: u16 = kani::any();
    let m = GA::mmio_address::<u32>(a);
    let io = GA::io_port_address::<u8>(p);
    let q = GA::mmio_address::<u64>(a);
    let mb = m.as_bytes();
    let ib = io.as_bytes();
    let qb = q.as_bytes();
    let mut em: Exp<12> = Exp::new();
    em.u8(0).u8(32).u8(0).u8(3).u64(a);
    let mut ei: Exp<12> = Exp::new();
    ei.u8(1).u8(8).u8(0).u8(1).u64(p as u64);
    let mut eq: Exp<12> = Exp::new();
    eq.u8(0).u8(64).u8(0).u8(4).u64(a);
    let mut same = true;
    let mut i = 0;
    while i < 12 {
        if mb[i] != em.b[i] || ib[i] != ei.b[i] || qb[i] != eq.b[i] {
            same = false;
        }
        i += 1;
    }
    verdicts! {
        "C04: GAS::new_pci_config places device/function/register at their specification positions": r.eq_bytes(&e.b, e.n),
        "C04: GenericAddress mmio/io constructors: space id, bit width = 8*size, access size code, address": same,
    }
    kani::cover!(true, "REACHED");
}

/// public size helpers must state the number of bytes the structure serialises to
pub fn len_helpers<const P: u8>() {
    if P == 2 {
        let facs: Rec<70> = Rec::of(&acpi_tables::facs::FACS::new());
        let rsdp: Rec<40> = Rec::of(&acpi_tables::rsdp::Rsdp::new(kani::any(), kani::any()));
        let (g, _e) = sym_gas();
        let gas: Rec<16> = Rec::of(&g);
        let srv: Rec<104> = Rec::of(&acpi_tables::tpm2::TpmServer1_2::new([0; 6], [0; 8], 0));
        let fadt: Rec<280> = Rec::of(&acpi_tables::fadt::FADTBuilder::new([0; 6], [0; 8], 0).finalize());
        verdicts! {
            "C02: FACS::len() equals the bytes emitted": acpi_tables::facs::FACS::len() == facs.len,
            "C02: Rsdp::len() equals the bytes emitted": acpi_tables::rsdp::Rsdp::len() == rsdp.len,
            "C02: GAS::len() equals the bytes emitted": acpi_tables::gas::GAS::len() == gas.len,
            "C02: TpmServer1_2::len() equals the bytes emitted": acpi_tables::tpm2::TpmServer1_2::len() == srv.len,
            "C02: FADT::len() equals the bytes emitted": acpi_tables::fadt::FADT::len() == fadt.len,
        }
    }
    kani::cover!(true, "REACHED");
}

/// RHCT ISA string node built through its own public constructor (not only through add_isa_string)
pub fn isa_node<const P: u8>() {
    if P == 4 {
        let (s, bytes) = sym_static_str::<5>();
        let n = acpi_tables::rhct::IsaStringNode::new(s);
        let r: Rec<20> = Rec::of(&n);
        let e = crate::kinds::rhct::isa_exp::<5>(&bytes);
        assert!(r.eq_bytes(&e.b, e.n), "C04: image equals the specification-derived reference encoding");
    }
    kani::cover!(true, "REACHED");
}

// ------------------------------------------------------------------------------ FADT
/// expected values of the FADT fields the builder API can set (everything else is zero)
#[derive(Clone, Copy)]
pub struct FadtModel {
    pub firmware_ctrl: u32,
    pub dsdt: u32,
    pub profile: u8,
    pub acpi_enable: u8,
    pub acpi_disable: u8,
    pub gpe0_blk: u32,
    pub gpe1_blk: u32,
    pub gpe0_len: u8,
    pub gpe1_len: u8,
    pub gpe1_base: u8,
    pub flags: u32,
    pub x_firmware_ctrl: u64,
    pub x_dsdt: u64,
}

pub const FADT_FLAGS: [(acpi_tables::fadt::Flags, u32); 25] = {
    use acpi_tables::fadt::Flags as F;
    [
        (F::Wbinvd, 1 << 0), (F::WbinvdFlush, 1 << 1), (F::ProcC1, 1 << 2), (F::PLvl2Up, 1 << 3), (F::PwrButton, 1 << 4),
        (F::SlpButton, 1 << 5), (F::FixRtc, 1 << 6), (F::RtcS4, 1 << 7), (F::TmrValExt, 1 << 8), (F::DckCap, 1 << 9),
        (F::ResetRegSup, 1 << 10), (F::SealedCase, 1 << 11), (F::Headless, 1 << 12), (F::CpuSwSlp, 1 << 13), (F::PciExpWak, 1 << 14),
        (F::UsePlatformClock, 1 << 15), (F::S4RtcStsValid, 1 << 16), (F::RemotePowerOnCapable, 1 << 17),
        (F::ForceApicClusterModel, 1 << 18), (F::ForceApicPhysicalDestinationMode, 1 << 19), (F::HwReducedAcpi, 1 << 20),
        (F::LowPowerS0IdleCapable, 1 << 21), (F::PersistentCpuCachesNotReported, 0), (F::PersistentCpuCachesNotPersistent, 1 << 22),
        (F::PersistentCpuCachesArePersistent, 2 << 22),
    ]
};

pub fn fadt_chain(k: usize) -> (acpi_tables::fadt::FADTBuilder, FadtModel, ([u8; 6], [u8; 8], u32)) {
    use acpi_tables::fadt::*;
    let oem = sym_oem();
    let mut b = FADTBuilder::new(oem.0, oem.1, oem.2);
    let mut m = FadtModel { firmware_ctrl: 0, dsdt: 0, profile: 0, acpi_enable: 0, acpi_disable: 0, gpe0_blk: 0, gpe1_blk: 0, gpe0_len: 0,
        gpe1_len: 0, gpe1_base: 0, flags: 0, x_firmware_ctrl: 0, x_dsdt: 0 };
    let mut i = 0;
    while i < k {
        let op: u8 = kani::any();
        kani::assume(op < 9);
        match op {
            0 => {
                let a: u32 = kani::any();
                b = b.dsdt_32(a);
                m.dsdt = a;
                m.x_dsdt = 0;
            }
            1 => {
                let a: u64 = kani::any();
                b = b.dsdt_64(a);
                m.dsdt = 0;
                m.x_dsdt = a;
            }
            2 => {
                let a: u32 = kani::any();
                b = b.firmware_ctrl_32(a);
                m.firmware_ctrl = a;
                m.x_firmware_ctrl = 0;
            }
            3 => {
                let a: u64 = kani::any();
                b = b.firmware_ctrl_64(a);
                m.firmware_ctrl = 0;
                m.x_firmware_ctrl = a;
            }
            4 => {
                b = b.acpi_enable();
                m.acpi_enable = 1;
                m.acpi_disable = 0;
            }
            5 => {
                b = b.acpi_disable();
                m.acpi_enable = 0;
                m.acpi_disable = 1;
            }
            6 => {
                let fi: usize = kani::any();
                kani::assume(fi < 25);
                b = b.flag(FADT_FLAGS[fi].0);
                m.flags |= FADT_FLAGS[fi].1;
            }
            7 => {
                let g0: u32 = kani::any();
                let g1: u32 = kani::any();
                let l0: u8 = kani::any();
                let l1: u8 = kani::any();
                let gb: u8 = kani::any();
                b = b.gpe_info(g0, g1, l0, l1, gb);
                m.gpe0_blk = g0;
                m.gpe1_blk = g1;
                m.gpe0_len = l0;
                m.gpe1_len = l1;
                m.gpe1_base = gb;
            }
            _ => {
                let (p, pc) = sym_enum!(PmProfile::Unspecified => 0u8, PmProfile::Desktop => 1, PmProfile::Mobile => 2, PmProfile::Workstation => 3,
                    PmProfile::EnterpriseServer => 4, PmProfile::SohoServer => 5, PmProfile::AppliancePc => 6, PmProfile::PerformanceServer => 7,
                    PmProfile::Tablet => 8);
                b = b.preferred_pm_profile(p);
                m.profile = pc;
            }
        }
        i += 1;
    }
    (b, m, oem)
}

/// FADT (ACPI 6.5 table 5.9), 276 bytes
pub fn fadt_exp(m: &FadtModel, oem: &([u8; 6], [u8; 8], u32)) -> Exp<280> {
    let mut e: Exp<280> = Exp::new();
    ref_header(&mut e, b"FACP", 276, 6, oem);
    e.u32(m.firmware_ctrl).u32(m.dsdt).u8(0).u8(m.profile).u16(0).u32(0); // .. SCI_INT, SMI_CMD
    e.u8(m.acpi_enable).u8(m.acpi_disable).u8(0).u8(0); // S4BIOS_REQ, PSTATE_CNT
    e.zeros(24); // PM1a_EVT .. PM_TMR_BLK
    e.u32(m.gpe0_blk).u32(m.gpe1_blk);
    e.zeros(4); // PM1_EVT_LEN, PM1_CNT_LEN, PM2_CNT_LEN, PM_TMR_LEN
    e.u8(m.gpe0_len).u8(m.gpe1_len).u8(m.gpe1_base).u8(0); // CST_CNT
    e.zeros(8); // P_LVL2_LAT, P_LVL3_LAT, FLUSH_SIZE, FLUSH_STRIDE
    e.zeros(5); // DUTY_OFFSET, DUTY_WIDTH, DAY_ALRM, MON_ALRM, CENTURY
    e.u16(0).u8(0); // IAPC_BOOT_ARCH, reserved
    e.u32(m.flags);
    e.zeros(12).u8(0).u16(0).u8(5); // RESET_REG, RESET_VALUE, ARM_BOOT_ARCH, minor version
    e.u64(m.x_firmware_ctrl).u64(m.x_dsdt);
    e.zeros(96); // X_PM1a_EVT .. X_GPE1
    e.zeros(24); // SLEEP_CONTROL_REG, SLEEP_STATUS_REG
    e.u64(0); // hypervisor vendor identity
    e
}

pub fn fadt<const P: u8>(k: usize) {
    let (b, m, oem) = fadt_chain(k);
    let t = b.finalize();
    let r: Rec<280> = Rec::of(&t);
    let e = fadt_exp(&m, &oem);
    if P == 4 {
        // minor version byte (131) is a revision constant: not demanded
        let mut same = r.len == e.n;
        let mut i = 0;
        while i < 280 {
            if i < e.n && !(i >= 4 && i <= 9) && i != 131 && r.buf[i] != e.b[i] {
                same = false;
            }
            i += 1;
        }
        assert!(same, "C04: image equals the specification-derived reference encoding");
    } else {
        fixed_verdicts::<P, 280>(&r, &e);
    }
    kani::cover!(true, "REACHED");
}
