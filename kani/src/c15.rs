//! C15 — alternative construction paths for the same object emit identical bytes.
use crate::common::*;
use acpi_tables::aml::*;
use acpi_tables::Aml;

pub mod c15 {
    use super::*;

    /// Scope::raw(path, bytes) == Scope::new(path, [child]) for a child emitting exactly `bytes`
    macro_rules! scope_raw {
        ($name:ident, $n:expr, $segs:expr, $root:expr, $unw:expr) => {
            #[kani::proof]
            #[kani::unwind($unw)]
            pub fn $name() {
                let child = Blob::<$n>::any_len($n);
                let (p1, _r, segs) = sym_path_r::<$segs>($root);
                let mut v = Vec::with_capacity($segs);
                let mut i = 0;
                while i < $segs {
                    v.push(segs[i]);
                    i += 1;
                }
                let p2 = Path::verif_from_parts($root, v);
                let raw = Scope::raw(p1, child.data.to_vec());
                let r: Rec<{ $n + 20 }> = Rec::of(&Scope::new(p2, vec![&child]));
                let mut same = raw.len() == r.len;
                let mut i = 0;
                while i < $n + 20 {
                    if i < raw.len() && i < r.len && raw[i] != r.buf[i] {
                        same = false;
                    }
                    i += 1;
                }
                verdicts! {
                    "C15: Scope::raw(path, bytes) equals Scope::new(path, children) byte for byte": same && r.fits(),
                    "C15: raw scope PkgLength closes on the end of the body": {
                        let (val, _n, fmt) = decode_pkglen(&raw, 1);
                        fmt && 1 + val == raw.len()
                    },
                }
                kani::cover!(true, "REACHED");
            }
        };
    }
    scope_raw!(q_scope_raw_0, 0, 1, false, 30);
    scope_raw!(q_scope_raw_1, 1, 2, true, 34);
    scope_raw!(q_scope_raw_4, 4, 1, true, 34);
    // 1-segment unrooted path: body = 4 + n; one-byte PkgLength while 4 + n + 1 <= 63
    scope_raw!(q_scope_raw_57, 57, 1, false, 84);
    scope_raw!(q_scope_raw_58, 58, 1, false, 84);
    scope_raw!(q_scope_raw_59, 59, 1, false, 84);
    scope_raw!(q_scope_raw_60, 60, 1, false, 84);
    // three-segment names (MultiNamePrefix + SegCount): name = 14 bytes, 15 rooted; the one-byte
    // PkgLength holds while 1 + 15 + n <= 63
    scope_raw!(q_scope_raw_3seg_4, 4, 3, false, 40);
    scope_raw!(q_scope_raw_3seg_rooted_47, 47, 3, true, 90);
    scope_raw!(q_scope_raw_3seg_rooted_48, 48, 3, true, 90);
    scope_raw!(t_scope_raw_2, 2, 1, false, 30);
    scope_raw!(t_scope_raw_16, 16, 2, false, 48);
    scope_raw!(t_scope_raw_48_2seg, 48, 2, true, 84);
    scope_raw!(t_scope_raw_49_2seg, 49, 2, true, 84);
    scope_raw!(t_scope_raw_56, 56, 1, false, 84);
    scope_raw!(t_scope_raw_61, 61, 1, false, 90);
    scope_raw!(t_scope_raw_80, 80, 1, true, 110);
    scope_raw!(t_scope_raw_200, 200, 1, false, 230);

    /// PackageBuilder filled element by element == Package built from the list. Elements: opaque blobs
    /// (symbolic content) and integer constants of every width class (concrete values: a symbolic
    /// integer makes the element's byte length, hence every later Vec length, symbolic -- see C08 for
    /// the integer encoder over all values).
    macro_rules! package_paths {
        ($name:ident, $la:expr, $v1:expr, $v2:expr) => {
            #[kani::proof]
            #[kani::unwind(40)]
            pub fn $name() {
                let a = Blob::<$la>::any_len($la);
                let v1: u64 = $v1;
                let v2: u16 = $v2;
                let mut pb = PackageBuilder::new();
                pb.add_element(&a);
                pb.add_element(&v1);
                pb.add_element(&v2);
                let rb: Rec<36> = Rec::of(&pb);
                let rp: Rec<36> = Rec::of(&Package::new(vec![&a, &v1, &v2]));
                let re: Rec<8> = Rec::of(&PackageBuilder::default());
                let rz: Rec<8> = Rec::of(&Package::new(vec![]));
                verdicts! {
                    "C15: PackageBuilder equals Package for the same elements": rb.eq_bytes(&rp.buf, rp.len) && rp.fits(),
                    "C15: empty PackageBuilder equals empty Package": re.eq_bytes(&rz.buf, rz.len),
                }
                kani::cover!(true, "REACHED");
            }
        };
    }
    package_paths!(q_package_paths_a, 3, 0x1_0000_0001u64, 0x1234u16);
    package_paths!(q_package_paths_b, 0, 0u64, 1u16);
    package_paths!(t_package_paths_c, 2, 0x42u64, 0xffu16);
    package_paths!(t_package_paths_d, 1, 0x1234_5678u64, 0x100u16);

    macro_rules! str_paths {
        ($name:ident, $n:expr) => {
            #[kani::proof]
            #[kani::unwind(16)]
            pub fn $name() {
                let (s, _b) = sym_static_str::<$n>();
                let owned = String::from(s);
                let r1: Rec<{ $n + 4 }> = Rec::of(&s);
                let r2: Rec<{ $n + 4 }> = Rec::of(&owned);
                assert!(r1.eq_bytes(&r2.buf, r2.len), "C15: borrowed and owned strings are interchangeable");
                kani::cover!(true, "REACHED");
            }
        };
    }
    str_paths!(q_str_0, 0);
    str_paths!(q_str_2, 2);
    str_paths!(q_str_5, 5);

    #[kani::proof]
    #[kani::unwind(14)]
    pub fn q_usize_u64() {
        let v: u64 = kani::any();
        let r1: Rec<10> = Rec::of(&v);
        let r2: Rec<10> = Rec::of(&(v as usize));
        assert!(r1.eq_bytes(&r2.buf, r2.len), "C15: platform-width and 64-bit integers of equal value are interchangeable");
        kani::cover!(true, "REACHED");
    }
}
