//! C06 — emitted AML parses back to exactly the term tree the caller built.
//! Per-constructor production lemmas around opaque symbolic children (DESIGN 2.2) plus
//! composition witnesses decoded by an independent recursive-descent parser.
use crate::common::*;
use acpi_tables::aml::*;
use acpi_tables::Aml;

type B3 = Blob<3>;

pub mod c06 {
    use super::*;

    // ---------------------------------------------------------------- leaf objects
    #[kani::proof]
    #[kani::unwind(6)]
    pub fn q_zero_one_ones() {
        let z: Rec<2> = Rec::of(&ZERO);
        let o: Rec<2> = Rec::of(&ONE);
        let f: Rec<2> = Rec::of(&ONES);
        verdicts! {
            "C06: ZeroOp is 0x00": z.len == 1 && z.buf[0] == 0x00,
            "C06: OneOp is 0x01": o.len == 1 && o.buf[0] == 0x01,
            "C06: OnesOp is 0xFF": f.len == 1 && f.buf[0] == 0xff,
        }
        kani::cover!(true, "REACHED");
    }

    #[kani::proof]
    #[kani::unwind(6)]
    pub fn q_arg_local() {
        let a: u8 = kani::any();
        kani::assume(a <= 6);
        let l: u8 = kani::any();
        kani::assume(l <= 7);
        let ra: Rec<2> = Rec::of(&Arg(a));
        let rl: Rec<2> = Rec::of(&Local(l));
        verdicts! {
            "C06: ArgN is 0x68+N": ra.len == 1 && ra.buf[0] == 0x68 + a,
            "C06: LocalN is 0x60+N": rl.len == 1 && rl.buf[0] == 0x60 + l,
        }
        kani::cover!(true, "REACHED");
    }

    macro_rules! string_harness {
        ($name:ident, $n:expr) => {
            #[kani::proof]
            #[kani::unwind(12)]
            pub fn $name() {
                let (s, bytes) = sym_static_str::<$n>();
                let r: Rec<{ $n + 4 }> = Rec::of(&s);
                let owned: String = String::from(s);
                let ro: Rec<{ $n + 4 }> = Rec::of(&owned);
                let mut e: Exp<{ $n + 4 }> = Exp::new();
                e.u8(0x0d).bytes(&bytes).u8(0);
                verdicts! {
                    "C06: &str is StringPrefix AsciiCharList NullChar": r.eq_bytes(&e.b, e.n),
                    "C06: String is StringPrefix AsciiCharList NullChar": ro.eq_bytes(&e.b, e.n),
                }
                kani::cover!(true, "REACHED");
            }
        };
    }
    /// Name::new_field_name: the bytes of the name as given (a NameSeg inside a field list)
    #[kani::proof]
    #[kani::unwind(8)]
    pub fn q_name_new_field_name() {
        let (s, bytes) = sym_static_str::<4>();
        let r: Rec<6> = Rec::of(&Name::new_field_name(s));
        assert!(r.eq_bytes(&bytes, 4), "C06: field name object = the four name characters verbatim");
        kani::cover!(true, "REACHED");
    }
    string_harness!(q_string_0, 0);
    string_harness!(q_string_1, 1);
    string_harness!(q_string_4, 4);
    string_harness!(t_string_7, 7);

    // ---------------------------------------------------------------- fixed-arity operators
    /// op a                 (ObjectType, SizeOf, Return, DeRefOf)
    macro_rules! unary_harness {
        ($name:ident, $ctor:ident, $op:expr) => {
            #[kani::proof]
            #[kani::unwind(12)]
            pub fn $name() {
                let a = B3::any();
                let r: Rec<8> = Rec::of(&$ctor::new(&a));
                let mut e: Exp<8> = Exp::new();
                e.u8($op).blob(&a);
                assert!(r.eq_bytes(&e.b, e.n), "C06: unary operator = opcode operand");
                kani::cover!(a.len == 3, "REACHED");
            }
        };
    }
    unary_harness!(q_objecttype, ObjectType, 0x8e);
    unary_harness!(q_sizeof, SizeOf, 0x87);
    unary_harness!(q_return, Return, 0xa4);
    unary_harness!(q_derefof, DeRefOf, 0x83);

    /// op a b target, constructor new(target, a, b)
    macro_rules! binary_harness {
        ($name:ident, $ctor:ident, $op:expr) => {
            #[kani::proof]
            #[kani::unwind(16)]
            pub fn $name() {
                let t = B3::any();
                let a = B3::any();
                let b = B3::any();
                let r: Rec<12> = Rec::of(&$ctor::new(&t, &a, &b));
                let mut e: Exp<12> = Exp::new();
                e.u8($op).blob(&a).blob(&b).blob(&t);
                assert!(r.eq_bytes(&e.b, e.n), "C06: binary operator = opcode operand1 operand2 target");
                kani::cover!(a.len == 3 && b.len == 1 && t.len == 2, "REACHED");
            }
        };
    }
    binary_harness!(q_add, Add, 0x72);
    binary_harness!(q_concat, Concat, 0x73);
    binary_harness!(q_subtract, Subtract, 0x74);
    binary_harness!(q_multiply, Multiply, 0x77);
    binary_harness!(q_shiftleft, ShiftLeft, 0x79);
    binary_harness!(q_shiftright, ShiftRight, 0x7a);
    binary_harness!(q_and, And, 0x7b);
    binary_harness!(q_nand, Nand, 0x7c);
    binary_harness!(q_or, Or, 0x7d);
    binary_harness!(q_nor, Nor, 0x7e);
    binary_harness!(q_xor, Xor, 0x7f);
    binary_harness!(q_concatres, ConcatRes, 0x84);
    binary_harness!(q_mod, Mod, 0x85);
    binary_harness!(q_index, Index, 0x88);
    binary_harness!(q_tostring, ToString, 0x9c);
    binary_harness!(q_createdwordfield, CreateDWordField, 0x8a);
    binary_harness!(q_createqwordfield, CreateQWordField, 0x8f);

    /// op a target, constructor new(target, a)
    macro_rules! convert_harness {
        ($name:ident, $ctor:ident, $op:expr) => {
            #[kani::proof]
            #[kani::unwind(12)]
            pub fn $name() {
                let t = B3::any();
                let a = B3::any();
                let r: Rec<8> = Rec::of(&$ctor::new(&t, &a));
                let mut e: Exp<8> = Exp::new();
                e.u8($op).blob(&a).blob(&t);
                assert!(r.eq_bytes(&e.b, e.n), "C06: conversion operator = opcode operand target");
                kani::cover!(a.len == 3 && t.len == 2, "REACHED");
            }
        };
    }
    convert_harness!(q_tobuffer, ToBuffer, 0x96);
    convert_harness!(q_tointeger, ToInteger, 0x99);

    /// [LNot] op left right
    macro_rules! compare_harness {
        ($name:ident, $ctor:ident, $inv:expr, $op:expr) => {
            #[kani::proof]
            #[kani::unwind(12)]
            pub fn $name() {
                let l = B3::any();
                let rr = B3::any();
                let r: Rec<10> = Rec::of(&$ctor::new(&l, &rr));
                let mut e: Exp<10> = Exp::new();
                if $inv {
                    e.u8(0x92);
                }
                e.u8($op).blob(&l).blob(&rr);
                assert!(r.eq_bytes(&e.b, e.n), "C06: comparison = [LNotOp] opcode left right");
                kani::cover!(l.len == 3 && rr.len == 2, "REACHED");
            }
        };
    }
    compare_harness!(q_equal, Equal, false, 0x93);
    compare_harness!(q_lessthan, LessThan, false, 0x95);
    compare_harness!(q_greaterthan, GreaterThan, false, 0x94);
    compare_harness!(q_notequal, NotEqual, true, 0x93);
    compare_harness!(q_greaterequal, GreaterEqual, true, 0x95);
    compare_harness!(q_lessequal, LessEqual, true, 0x94);

    #[kani::proof]
    #[kani::unwind(12)]
    pub fn q_store() {
        let name = B3::any();
        let value = B3::any();
        let r: Rec<8> = Rec::of(&Store::new(&name, &value));
        let mut e: Exp<8> = Exp::new();
        e.u8(0x70).blob(&value).blob(&name);
        assert!(r.eq_bytes(&e.b, e.n), "C06: Store = StoreOp TermArg SuperName");
        kani::cover!(name.len == 3 && value.len == 1, "REACHED");
    }

    #[kani::proof]
    #[kani::unwind(12)]
    pub fn q_notify() {
        let obj = B3::any();
        let value = B3::any();
        let r: Rec<8> = Rec::of(&Notify::new(&obj, &value));
        let mut e: Exp<8> = Exp::new();
        e.u8(0x86).blob(&obj).blob(&value);
        assert!(r.eq_bytes(&e.b, e.n), "C06: Notify = NotifyOp NotifyObject NotifyValue");
        kani::cover!(obj.len == 3 && value.len == 1, "REACHED");
    }

    #[kani::proof]
    #[kani::unwind(20)]
    pub fn q_createfield() {
        let name = B3::any();
        let src = B3::any();
        let idx = B3::any();
        let num = B3::any();
        let r: Rec<16> = Rec::of(&CreateField::new(&name, &src, &idx, &num));
        let mut e: Exp<16> = Exp::new();
        e.u8(0x5b).u8(0x13).blob(&src).blob(&idx).blob(&num).blob(&name);
        assert!(r.eq_bytes(&e.b, e.n), "C06: CreateField = ExtOpPrefix 0x13 SourceBuff BitIndex NumBits NameString");
        kani::cover!(name.len == 3 && src.len == 1 && idx.len == 2 && num.len == 0, "REACHED");
    }

    #[kani::proof]
    #[kani::unwind(20)]
    pub fn q_mid() {
        let src = B3::any();
        let idx = B3::any();
        let len = B3::any();
        let res = B3::any();
        let r: Rec<16> = Rec::of(&Mid::new(&src, &idx, &len, &res));
        let mut e: Exp<16> = Exp::new();
        e.u8(0x9e).blob(&src).blob(&idx).blob(&len).blob(&res);
        assert!(r.eq_bytes(&e.b, e.n), "C06: Mid = MidOp MidObj TermArg TermArg Target");
        kani::cover!(src.len == 3 && idx.len == 1 && len.len == 2 && res.len == 0, "REACHED");
    }

    // ---------------------------------------------------------------- named, not length-prefixed
    macro_rules! with_paths {
        ($q1:ident, $q2:ident, $t1:ident, $t2:ident, $body:ident) => {
            #[kani::proof]
            #[kani::unwind(32)]
            pub fn $q1() {
                $body::<1>(true);
            }
            #[kani::proof]
            #[kani::unwind(32)]
            pub fn $q2() {
                $body::<2>(false);
            }
            #[kani::proof]
            #[kani::unwind(32)]
            pub fn $t1() {
                $body::<1>(false);
            }
            #[kani::proof]
            #[kani::unwind(32)]
            pub fn $t2() {
                $body::<2>(true);
            }
        };
    }

    fn name_body<const S: usize>(rt: bool) {
        let (p, root, segs) = sym_path_r::<S>(rt);
        let inner = B3::any_len(if S == 1 { 3 } else { 1 });
        let r: Rec<24> = Rec::of(&Name::new(p, &inner));
        let mut e: Exp<24> = Exp::new();
        e.u8(0x08);
        ref_namestring(&mut e, root, &segs);
        e.blob(&inner);
        assert!(r.eq_bytes(&e.b, e.n), "C06: Name = NameOp NameString DataRefObject");
        kani::cover!(true, "REACHED");
    }
    with_paths!(q_name_1seg_rooted, q_name_2seg, t_name_1seg, t_name_2seg_rooted, name_body);

    fn opregion_body<const S: usize>(rt: bool) {
        let (p, root, segs) = sym_path_r::<S>(rt);
        let off = B3::any_len(if S == 1 { 3 } else { 0 });
        let len = B3::any_len(if S == 1 { 1 } else { 2 });
        let sp: u8 = kani::any();
        kani::assume(sp <= 9);
        let space = match sp {
            0 => OpRegionSpace::SystemMemory,
            1 => OpRegionSpace::SystemIO,
            2 => OpRegionSpace::PCIConfig,
            3 => OpRegionSpace::EmbeddedControl,
            4 => OpRegionSpace::SMBus,
            5 => OpRegionSpace::SystemCMOS,
            6 => OpRegionSpace::PciBarTarget,
            7 => OpRegionSpace::IPMI,
            8 => OpRegionSpace::GeneralPurposeIO,
            _ => OpRegionSpace::GenericSerialBus,
        };
        let r: Rec<28> = Rec::of(&OpRegion::new(p, space, &off, &len));
        let mut e: Exp<28> = Exp::new();
        e.u8(0x5b).u8(0x80);
        ref_namestring(&mut e, root, &segs);
        e.u8(sp).blob(&off).blob(&len);
        assert!(r.eq_bytes(&e.b, e.n), "C06: OpRegion = ExtOpPrefix 0x80 NameString RegionSpace RegionOffset RegionLen");
        kani::cover!(true, "REACHED");
    }
    with_paths!(q_opregion_1seg_rooted, q_opregion_2seg, t_opregion_1seg, t_opregion_2seg_rooted, opregion_body);

    fn mutex_body<const S: usize>(rt: bool) {
        let (p, root, segs) = sym_path_r::<S>(rt);
        let (p2, root2, segs2) = sym_path_r::<S>(!rt);
        let (p3, root3, segs3) = sym_path_r::<S>(rt);
        let sync: u8 = kani::any();
        let timeout: u16 = kani::any();
        let rm: Rec<16> = Rec::of(&Mutex::new(p, sync));
        let ra: Rec<16> = Rec::of(&Acquire::new(p2, timeout));
        let rr: Rec<16> = Rec::of(&Release::new(p3));
        let mut em: Exp<16> = Exp::new();
        em.u8(0x5b).u8(0x01);
        ref_namestring(&mut em, root, &segs);
        em.u8(sync);
        let mut ea: Exp<16> = Exp::new();
        ea.u8(0x5b).u8(0x23);
        ref_namestring(&mut ea, root2, &segs2);
        ea.u16(timeout);
        let mut er: Exp<16> = Exp::new();
        er.u8(0x5b).u8(0x27);
        ref_namestring(&mut er, root3, &segs3);
        verdicts! {
            "C06: Mutex = ExtOpPrefix 0x01 NameString SyncFlags": rm.eq_bytes(&em.b, em.n),
            "C06: Acquire = ExtOpPrefix 0x23 MutexObject Timeout(word)": ra.eq_bytes(&ea.b, ea.n),
            "C06: Release = ExtOpPrefix 0x27 MutexObject": rr.eq_bytes(&er.b, er.n),
        }
        kani::cover!(true, "REACHED");
    }
    with_paths!(q_mutex_1seg_rooted, q_mutex_2seg, t_mutex_1seg, t_mutex_2seg_rooted, mutex_body);

    fn methodcall_body<const S: usize>(rt: bool) {
        let (p, root, segs) = sym_path_r::<S>(rt);
        let (p0, root0, segs0) = sym_path_r::<S>(!rt);
        let a = B3::any_len(if S == 1 { 3 } else { 0 });
        let b = B3::any_len(if S == 1 { 1 } else { 2 });
        let r0: Rec<24> = Rec::of(&MethodCall::new(p0, vec![]));
        let r2: Rec<24> = Rec::of(&MethodCall::new(p, vec![&a, &b]));
        let mut e0: Exp<24> = Exp::new();
        ref_namestring(&mut e0, root0, &segs0);
        let mut e2: Exp<24> = Exp::new();
        ref_namestring(&mut e2, root, &segs);
        e2.blob(&a).blob(&b);
        verdicts! {
            "C06: MethodCall() = NameString": r0.eq_bytes(&e0.b, e0.n),
            "C06: MethodCall(a,b) = NameString TermArgList in order": r2.eq_bytes(&e2.b, e2.n),
        }
        kani::cover!(true, "REACHED");
    }
    with_paths!(q_methodcall_1seg_rooted, q_methodcall_2seg, t_methodcall_1seg, t_methodcall_2seg_rooted, methodcall_body);

    // ---------------------------------------------------------------- length-prefixed objects
    /// children list of k blobs
    macro_rules! kids {
        (0, $a:ident, $b:ident, $c:ident) => { vec![] };
        (1, $a:ident, $b:ident, $c:ident) => { vec![&$a as &dyn Aml] };
        (2, $a:ident, $b:ident, $c:ident) => { vec![&$a as &dyn Aml, &$b] };
        (3, $a:ident, $b:ident, $c:ident) => { vec![&$a as &dyn Aml, &$b, &$c] };
    }
    macro_rules! kids_exp {
        ($e:ident, 0, $a:ident, $b:ident, $c:ident) => {};
        ($e:ident, 1, $a:ident, $b:ident, $c:ident) => { $e.blob(&$a); };
        ($e:ident, 2, $a:ident, $b:ident, $c:ident) => { $e.blob(&$a).blob(&$b); };
        ($e:ident, 3, $a:ident, $b:ident, $c:ident) => { $e.blob(&$a).blob(&$b).blob(&$c); };
    }

    macro_rules! pkg_verdicts {
        ($r:ident, $e:ident, $oplen:expr, $what:literal) => {
            let opcode_ok = {
                let mut ok = true;
                let mut i = 0;
                while i < $oplen {
                    if $r.buf[i] != $e.b[i] {
                        ok = false;
                    }
                    i += 1;
                }
                ok
            };
            verdicts! {
                "C06: opcode bytes in specification order (ExtOpPrefix first)": opcode_ok,
                "C06: PkgLength closes exactly on the end of the last child": pkg_closes(&$r, $oplen),
                $what: $r.eq_bytes(&$e.b, $e.n),
            }
        };
    }

    /// Scope / Device / Method / PowerResource over k children, S path segments
    macro_rules! named_scope_harness {
        ($name:ident, $k:tt, [$la:expr, $lb:expr, $lc:expr], $s:expr, $build:expr, $op:expr, $oplen:expr, $extra:expr, $what:literal) => {
            #[kani::proof]
            #[kani::unwind(40)]
            pub fn $name() {
                let (p, root, segs) = sym_path_r::<$s>(($s + $k) % 2 == 0);
                let a = B3::any_len($la);
                let b = B3::any_len($lb);
                let c = B3::any_len($lc);
                let _ = (&a, &b, &c);
                let x1: u8 = kani::any();
                let x2: u16 = kani::any();
                let x3: bool = kani::any();
                let children: Vec<&dyn Aml> = kids!($k, a, b, c);
                let build: fn(Path, u8, u16, bool, Vec<&dyn Aml>) -> Rec<36> = $build;
                let valid: fn(u8, u16, bool) -> bool = $extra.0;
                kani::assume(valid(x1, x2, x3));
                let r = build(p, x1, x2, x3, children);
                let mut body: Exp<32> = Exp::new();
                ref_namestring(&mut body, root, &segs);
                let fixed: fn(&mut Exp<32>, u8, u16, bool) = $extra.1;
                fixed(&mut body, x1, x2, x3);
                kids_exp!(body, $k, a, b, c);
                let e: Exp<36> = ref_pkg_object(&$op, &body);
                pkg_verdicts!(r, e, $oplen, $what);
                kani::cover!(true, "REACHED");
            }
        };
    }

    fn no_fixed(_e: &mut Exp<32>, _a: u8, _b: u16, _c: bool) {}
    fn any_ok(_a: u8, _b: u16, _c: bool) -> bool {
        true
    }
    fn build_scope(p: Path, _a: u8, _b: u16, _c: bool, ch: Vec<&dyn Aml>) -> Rec<36> {
        Rec::of(&Scope::new(p, ch))
    }
    fn build_device(p: Path, _a: u8, _b: u16, _c: bool, ch: Vec<&dyn Aml>) -> Rec<36> {
        Rec::of(&Device::new(p, ch))
    }
    fn build_method(p: Path, args: u8, _b: u16, ser: bool, ch: Vec<&dyn Aml>) -> Rec<36> {
        Rec::of(&Method::new(p, args, ser, ch))
    }
    fn method_valid(args: u8, _b: u16, _c: bool) -> bool {
        args <= 7
    }
    fn method_fixed(e: &mut Exp<32>, args: u8, _b: u16, ser: bool) {
        // MethodFlags: bits 0-2 ArgCount, bit 3 SerializeFlag, bits 4-7 SyncLevel (0)
        e.u8(args | if ser { 8 } else { 0 });
    }
    fn build_power(p: Path, level: u8, order: u16, _c: bool, ch: Vec<&dyn Aml>) -> Rec<36> {
        Rec::of(&PowerResource::new(p, level, order, ch))
    }
    fn power_fixed(e: &mut Exp<32>, level: u8, order: u16, _c: bool) {
        e.u8(level).u16(order);
    }

    named_scope_harness!(q_scope_k0, 0, [0, 0, 0], 1, build_scope, [0x10u8], 1, (any_ok, no_fixed), "C06: Scope = ScopeOp PkgLength NameString TermList");
    named_scope_harness!(q_scope_k2, 2, [1, 2, 0], 2, build_scope, [0x10u8], 1, (any_ok, no_fixed), "C06: Scope = ScopeOp PkgLength NameString TermList");
    named_scope_harness!(t_scope_k3, 3, [2, 0, 3], 1, build_scope, [0x10u8], 1, (any_ok, no_fixed), "C06: Scope = ScopeOp PkgLength NameString TermList");
    named_scope_harness!(q_device_k1, 1, [3, 0, 0], 2, build_device, [0x5bu8, 0x82], 2, (any_ok, no_fixed), "C06: Device = ExtOpPrefix 0x82 PkgLength NameString TermList");
    named_scope_harness!(q_device_k3, 3, [2, 0, 3], 1, build_device, [0x5bu8, 0x82], 2, (any_ok, no_fixed), "C06: Device = ExtOpPrefix 0x82 PkgLength NameString TermList");
    named_scope_harness!(t_device_k0, 0, [0, 0, 0], 1, build_device, [0x5bu8, 0x82], 2, (any_ok, no_fixed), "C06: Device = ExtOpPrefix 0x82 PkgLength NameString TermList");
    named_scope_harness!(q_method_k0, 0, [0, 0, 0], 1, build_method, [0x14u8], 1, (method_valid, method_fixed), "C06: Method = MethodOp PkgLength NameString MethodFlags TermList");
    named_scope_harness!(q_method_k2, 2, [1, 2, 0], 2, build_method, [0x14u8], 1, (method_valid, method_fixed), "C06: Method = MethodOp PkgLength NameString MethodFlags TermList");
    named_scope_harness!(t_method_k3, 3, [2, 0, 3], 1, build_method, [0x14u8], 1, (method_valid, method_fixed), "C06: Method = MethodOp PkgLength NameString MethodFlags TermList");
    named_scope_harness!(q_powerresource_k1, 1, [3, 0, 0], 1, build_power, [0x5bu8, 0x84], 2, (any_ok, power_fixed), "C06: PowerResource = ExtOpPrefix 0x84 PkgLength NameString SystemLevel ResourceOrder TermList");
    named_scope_harness!(q_powerresource_k2, 2, [1, 2, 0], 2, build_power, [0x5bu8, 0x84], 2, (any_ok, power_fixed), "C06: PowerResource = ExtOpPrefix 0x84 PkgLength NameString SystemLevel ResourceOrder TermList");
    named_scope_harness!(t_powerresource_k0, 0, [0, 0, 0], 1, build_power, [0x5bu8, 0x84], 2, (any_ok, power_fixed), "C06: PowerResource = ExtOpPrefix 0x84 PkgLength NameString SystemLevel ResourceOrder TermList");

    /// If / While (predicate + k children), Else (k children)
    macro_rules! flow_harness {
        ($name:ident, $k:tt, [$lp:expr, $la:expr, $lb:expr, $lc:expr], $ctor:ident, $op:expr, $pred:expr, $what:literal) => {
            #[kani::proof]
            #[kani::unwind(24)]
            pub fn $name() {
                let p = B3::any_len($lp);
                let a = B3::any_len($la);
                let b = B3::any_len($lb);
                let c = B3::any_len($lc);
                let _ = (&p, &a, &b, &c);
                let children: Vec<&dyn Aml> = kids!($k, a, b, c);
                let r: Rec<20> = flow_build!($ctor, $pred, p, children);
                let mut body: Exp<16> = Exp::new();
                if $pred {
                    body.blob(&p);
                }
                kids_exp!(body, $k, a, b, c);
                let e: Exp<20> = ref_pkg_object(&[$op], &body);
                pkg_verdicts!(r, e, 1, $what);
                kani::cover!(true, "REACHED");
            }
        };
    }
    macro_rules! flow_build {
        (Else, $pred:expr, $p:ident, $ch:ident) => { Rec::of(&Else::new($ch)) };
        ($ctor:ident, $pred:expr, $p:ident, $ch:ident) => { Rec::of(&$ctor::new(&$p, $ch)) };
    }
    flow_harness!(q_if_k0, 0, [2, 0, 0, 0], If, 0xa0u8, true, "C06: If = IfOp PkgLength Predicate TermList");
    flow_harness!(q_if_k2, 2, [3, 0, 2, 0], If, 0xa0u8, true, "C06: If = IfOp PkgLength Predicate TermList");
    flow_harness!(t_if_k3, 3, [1, 2, 3, 1], If, 0xa0u8, true, "C06: If = IfOp PkgLength Predicate TermList");
    flow_harness!(q_else_k0, 0, [2, 0, 0, 0], Else, 0xa1u8, false, "C06: Else = ElseOp PkgLength TermList");
    flow_harness!(q_else_k2, 2, [3, 0, 2, 0], Else, 0xa1u8, false, "C06: Else = ElseOp PkgLength TermList");
    flow_harness!(t_else_k3, 3, [1, 2, 3, 1], Else, 0xa1u8, false, "C06: Else = ElseOp PkgLength TermList");
    flow_harness!(q_while_k1, 1, [1, 3, 0, 0], While, 0xa2u8, true, "C06: While = WhileOp PkgLength Predicate TermList");
    flow_harness!(q_while_k3, 3, [1, 2, 3, 1], While, 0xa2u8, true, "C06: While = WhileOp PkgLength Predicate TermList");
    flow_harness!(t_while_k0, 0, [2, 0, 0, 0], While, 0xa2u8, true, "C06: While = WhileOp PkgLength Predicate TermList");

    /// Package / PackageBuilder: PackageOp PkgLength NumElements elements
    macro_rules! package_harness {
        ($name:ident, $k:tt, [$la:expr, $lb:expr, $lc:expr]) => {
            #[kani::proof]
            #[kani::unwind(24)]
            pub fn $name() {
                let a = B3::any_len($la);
                let b = B3::any_len($lb);
                let c = B3::any_len($lc);
                let _ = (&a, &b, &c);
                let children: Vec<&dyn Aml> = kids!($k, a, b, c);
                let mut pb = PackageBuilder::new();
                for ch in children.iter() {
                    pb.add_element(*ch);
                }
                let r: Rec<20> = Rec::of(&Package::new(children));
                let rb: Rec<20> = Rec::of(&pb);
                let mut body: Exp<16> = Exp::new();
                body.u8($k);
                kids_exp!(body, $k, a, b, c);
                let e: Exp<20> = ref_pkg_object(&[0x12u8], &body);
                verdicts! {
                    "C06: Package PkgLength closes exactly on the end of the last element": pkg_closes(&r, 1),
                    "C06: Package = PackageOp PkgLength NumElements PackageElementList": r.eq_bytes(&e.b, e.n),
                    "C06: PackageBuilder = PackageOp PkgLength NumElements PackageElementList": rb.eq_bytes(&e.b, e.n),
                }
                kani::cover!(true, "REACHED");
            }
        };
    }
    package_harness!(q_package_k0, 0, [0, 0, 0]);
    package_harness!(q_package_k1, 1, [3, 0, 0]);
    package_harness!(q_package_k3, 3, [1, 0, 3]);
    package_harness!(t_package_k2, 2, [2, 2, 0]);

    #[kani::proof]
    #[kani::unwind(16)]
    pub fn q_varpackage_bufferterm() {
        let a = B3::any_len(3);
        let rv: Rec<8> = Rec::of(&VarPackageTerm::new(&a));
        let rb: Rec<8> = Rec::of(&BufferTerm::new(&a));
        let mut body: Exp<4> = Exp::new();
        body.blob(&a);
        let ev: Exp<8> = ref_pkg_object(&[0x13u8], &body);
        let eb: Exp<8> = ref_pkg_object(&[0x11u8], &body);
        verdicts! {
            "C06: VarPackage = VarPackageOp PkgLength VarNumElements": rv.eq_bytes(&ev.b, ev.n) && pkg_closes(&rv, 1),
            "C06: Buffer(TermArg) = BufferOp PkgLength BufferSize": rb.eq_bytes(&eb.b, eb.n) && pkg_closes(&rb, 1),
        }
        kani::cover!(a.len == 3, "REACHED");
    }

    /// Field: flags over all enum variants, 0..=2 entries of both kinds with symbolic widths < 64
    macro_rules! field_harness {
        ($name:ident, $k:expr, $s:expr, $kinds:expr) => {
            #[kani::proof]
            #[kani::unwind(40)]
            pub fn $name() {
                let kinds: [bool; 3] = $kinds;
                let (p, root, segs) = sym_path_r::<$s>(($s + $k) % 2 == 1);
                let at: u8 = kani::any();
                kani::assume(at <= 5);
                let access = match at {
                    0 => FieldAccessType::Any,
                    1 => FieldAccessType::Byte,
                    2 => FieldAccessType::Word,
                    3 => FieldAccessType::DWord,
                    4 => FieldAccessType::QWord,
                    _ => FieldAccessType::Buffer,
                };
                let lock: bool = kani::any();
                let upd: u8 = kani::any();
                kani::assume(upd <= 2);
                let update = match upd {
                    0 => FieldUpdateRule::Preserve,
                    1 => FieldUpdateRule::WriteAsOnes,
                    _ => FieldUpdateRule::WriteAsZeroes,
                };
                let mut body: Exp<32> = Exp::new();
                ref_namestring(&mut body, root, &segs);
                // FieldFlags: bits 0-3 AccessType, bit 4 LockRule, bits 5-6 UpdateRule
                body.u8(at | ((lock as u8) << 4) | (upd << 5));
                let mut entries = Vec::new();
                let mut i = 0;
                while i < $k {
                    let named: bool = kinds[i];
                    let w: usize = kani::any();
                    kani::assume(w < 63);
                    let nm: [u8; 4] = kani::any();
                    if named {
                        entries.push(FieldEntry::Named(nm, w));
                        body.bytes(&nm).u8(w as u8);
                    } else {
                        entries.push(FieldEntry::Reserved(w));
                        body.u8(0).u8(w as u8);
                    }
                    i += 1;
                }
                let f = Field::new(
                    p,
                    access,
                    if lock { FieldLockRule::Lock } else { FieldLockRule::NoLock },
                    update,
                    entries,
                );
                let r: Rec<36> = Rec::of(&f);
                let e: Exp<36> = ref_pkg_object(&[0x5bu8, 0x81], &body);
                pkg_verdicts!(r, e, 2, "C06: Field = ExtOpPrefix 0x81 PkgLength NameString FieldFlags FieldList");
                kani::cover!(true, "REACHED");
            }
        };
    }
    field_harness!(q_field_k0, 0, 1, [false, false, false]);
    field_harness!(q_field_k2, 2, 2, [true, false, false]);
    field_harness!(t_field_k1, 1, 1, [false, false, false]);
    field_harness!(t_field_k3, 3, 1, [false, true, true]);
    /// BufferData: BufferOp PkgLength BufferSize(narrowest integer of the data length) ByteList
    macro_rules! bufferdata_harness {
        ($name:ident, $n:expr, $unw:expr) => {
            #[kani::proof]
            #[kani::unwind($unw)]
            pub fn $name() {
                let data: [u8; $n] = kani::any();
                let r: Rec<{ $n + 12 }> = Rec::of(&BufferData::new(data.to_vec()));
                let mut body: Exp<{ $n + 8 }> = Exp::new();
                ref_int(&mut body, $n as u64);
                body.bytes(&data);
                let e: Exp<{ $n + 12 }> = ref_pkg_object(&[0x11u8], &body);
                verdicts! {
                    "C06: Buffer PkgLength closes exactly on the end of the byte list": pkg_closes(&r, 1),
                    "C06: Buffer = BufferOp PkgLength BufferSize ByteList": r.eq_bytes(&e.b, e.n),
                }
                kani::cover!(true, "REACHED");
            }
        };
    }
    bufferdata_harness!(q_bufferdata_0, 0, 20);
    bufferdata_harness!(q_bufferdata_1, 1, 20);
    bufferdata_harness!(q_bufferdata_3, 3, 24);
    bufferdata_harness!(q_bufferdata_16, 16, 36);
    bufferdata_harness!(q_bufferdata_256, 256, 280);
    bufferdata_harness!(t_bufferdata_255, 255, 280);
    bufferdata_harness!(t_bufferdata_57, 57, 80);
    bufferdata_harness!(t_bufferdata_58, 58, 80);
    // ---------------------------------------------------------------- PkgLength width boundaries with real bodies
    /// one opaque child sized so that the body is exactly $body bytes: 62 -> one-byte PkgLength (total 63),
    /// 63 -> two bytes
    macro_rules! boundary_harness {
        ($name:ident, $child:expr, $cap:expr, $unw:expr, |$c:ident, $p:ident, $root:ident, $segs:ident| $mk:expr, $op:expr, $oplen:expr, |$e:ident| $fixed:expr) => {
            #[kani::proof]
            #[kani::unwind($unw)]
            pub fn $name() {
                use acpi_tables::aml::*;
                let $c = Blob::<$child>::any_len($child);
                let ($p, $root, $segs) = sym_path_r::<1>(false);
                let _ = (&$root, &$segs);
                let r: Rec<$cap> = Rec::of(&$mk);
                let mut $e: Exp<$cap> = Exp::new();
                $fixed;
                $e.blob(&$c);
                let body = $e;
                let exp: Exp<$cap> = {
                    let mut x: Exp<$cap> = Exp::new();
                    x.bytes(&$op);
                    ref_pkglen_incl(&mut x, body.n);
                    x.append(&body);
                    x
                };
                verdicts! {
                    "C06: PkgLength closes exactly on the end of the last child (width boundary)": pkg_closes(&r, $oplen) && r.fits(),
                    "C06: object equals its production with the shortest self-inclusive PkgLength (width boundary)": r.eq_bytes(&exp.b, exp.n),
                }
                kani::cover!(true, "REACHED");
            }
        };
    }
    // Scope: body = 4 (name) + child
    boundary_harness!(q_boundary_scope_62, 58, 72, 80, |c, p, root, segs| Scope::new(p, vec![&c]), [0x10u8], 1, |e| ref_namestring(&mut e, root, &segs));
    boundary_harness!(q_boundary_scope_63, 59, 72, 80, |c, p, root, segs| Scope::new(p, vec![&c]), [0x10u8], 1, |e| ref_namestring(&mut e, root, &segs));
    // Device
    boundary_harness!(q_boundary_device_62, 58, 72, 80, |c, p, root, segs| Device::new(p, vec![&c]), [0x5bu8, 0x82], 2, |e| ref_namestring(&mut e, root, &segs));
    boundary_harness!(q_boundary_device_63, 59, 72, 80, |c, p, root, segs| Device::new(p, vec![&c]), [0x5bu8, 0x82], 2, |e| ref_namestring(&mut e, root, &segs));
    // Method: body = 4 + 1 (flags) + child
    boundary_harness!(q_boundary_method_62, 57, 72, 80, |c, p, root, segs| Method::new(p, 3, true, vec![&c]), [0x14u8], 1, |e| { ref_namestring(&mut e, root, &segs); e.u8(3 | 8); });
    boundary_harness!(q_boundary_method_63, 58, 72, 80, |c, p, root, segs| Method::new(p, 3, true, vec![&c]), [0x14u8], 1, |e| { ref_namestring(&mut e, root, &segs); e.u8(3 | 8); });
    // PowerResource: body = 4 + 3 + child
    boundary_harness!(q_boundary_powerresource_62, 55, 72, 80, |c, p, root, segs| PowerResource::new(p, 2, 0x1234, vec![&c]), [0x5bu8, 0x84], 2, |e| { ref_namestring(&mut e, root, &segs); e.u8(2).u16(0x1234); });
    boundary_harness!(q_boundary_powerresource_63, 56, 72, 80, |c, p, root, segs| PowerResource::new(p, 2, 0x1234, vec![&c]), [0x5bu8, 0x84], 2, |e| { ref_namestring(&mut e, root, &segs); e.u8(2).u16(0x1234); });
    // If / While / Else: body = child (predicate is the child itself for If/While)
    boundary_harness!(q_boundary_if_62, 62, 72, 80, |c, p, root, segs| { let _ = p; If::new(&c, vec![]) }, [0xa0u8], 1, |e| ());
    boundary_harness!(q_boundary_if_63, 63, 72, 80, |c, p, root, segs| { let _ = p; If::new(&c, vec![]) }, [0xa0u8], 1, |e| ());
    boundary_harness!(t_boundary_while_62, 62, 72, 80, |c, p, root, segs| { let _ = p; While::new(&c, vec![]) }, [0xa2u8], 1, |e| ());
    boundary_harness!(t_boundary_while_63, 63, 72, 80, |c, p, root, segs| { let _ = p; While::new(&c, vec![]) }, [0xa2u8], 1, |e| ());
    boundary_harness!(q_boundary_else_62, 62, 72, 80, |c, p, root, segs| { let _ = p; Else::new(vec![&c]) }, [0xa1u8], 1, |e| ());
    boundary_harness!(q_boundary_else_63, 63, 72, 80, |c, p, root, segs| { let _ = p; Else::new(vec![&c]) }, [0xa1u8], 1, |e| ());
    // Package: body = 1 (count) + child; VarPackage / BufferTerm: body = child
    boundary_harness!(q_boundary_package_62, 61, 72, 80, |c, p, root, segs| { let _ = p; Package::new(vec![&c]) }, [0x12u8], 1, |e| { e.u8(1); });
    boundary_harness!(q_boundary_package_63, 62, 72, 80, |c, p, root, segs| { let _ = p; Package::new(vec![&c]) }, [0x12u8], 1, |e| { e.u8(1); });
    boundary_harness!(t_boundary_varpackage_62, 62, 72, 80, |c, p, root, segs| { let _ = p; VarPackageTerm::new(&c) }, [0x13u8], 1, |e| ());
    boundary_harness!(t_boundary_varpackage_63, 63, 72, 80, |c, p, root, segs| { let _ = p; VarPackageTerm::new(&c) }, [0x13u8], 1, |e| ());
    boundary_harness!(t_boundary_bufferterm_63, 63, 72, 80, |c, p, root, segs| { let _ = p; BufferTerm::new(&c) }, [0x11u8], 1, |e| ());
    // 4095 / 4096 (two -> three bytes): harnesses with bodies of 4093 / 4094 bytes (t_boundary_scope_4093,
    // t_boundary_scope_4094, t_boundary_else_4094) were tried in the thorough tier and removed: symbolic
    // execution alone (a 4100-iteration byte loop per sink call, 9 GB) does not finish in 2400 s. The
    // PkgLength encoder is decided for every length by C07; the composition at that size is not materialised.
    // ---------------------------------------------------------------- composition witness
    /// Independent recursive-descent decoder for the subset of AML the witnesses use (ACPI 6.5 20.2).
    /// It is told nothing but the grammar: it records (opcode, value) events, and for every
    /// PkgLength-delimited object it checks that the object's last child ends exactly at the end the
    /// PkgLength states. Leaves are symbolic inside a fixed width class, so all lengths are concrete.
    pub struct Dec<'a> {
        pub b: &'a [u8],
        pub n: usize,
        pub p: usize,
        pub ok: bool,
        pub ev: [(u8, u64); 40],
        pub nev: usize,
    }
    impl<'a> Dec<'a> {
        fn emit(&mut self, k: u8, v: u64) {
            if self.nev < 40 {
                self.ev[self.nev] = (k, v);
            } else {
                self.ok = false;
            }
            self.nev += 1;
        }
        fn name(&mut self) -> u64 {
            // NameString: [\\] (seg | 2E seg seg); value = segments packed, rootedness in bit 63
            let mut v: u64 = 0;
            if self.b[self.p] == 0x5c {
                v |= 1 << 63;
                self.p += 1;
            }
            let cnt = if self.b[self.p] == 0x2e {
                self.p += 1;
                2
            } else {
                1
            };
            let mut i = 0;
            while i < 4 * cnt {
                if i < 7 {
                    v ^= (self.b[self.p + i] as u64) << (8 * i);
                }
                i += 1;
            }
            self.p += 4 * cnt;
            v ^ ((cnt as u64) << 60)
        }
        /// TermList up to `end`
        fn list(&mut self, end: usize, depth: u8) {
            let mut guard = 0;
            while self.p < end && guard < 6 {
                self.term(depth);
                guard += 1;
            }
            if self.p != end {
                self.ok = false; // a child ran past (or stopped short of) the end its parent's PkgLength states
            }
        }
        fn pkg_end(&mut self) -> usize {
            let start = self.p;
            let (val, n, fmt) = decode_pkglen(self.b, self.p);
            if !fmt {
                self.ok = false;
            }
            self.p += n;
            start + val
        }
        fn term(&mut self, depth: u8) {
            if depth > 6 || self.p >= self.n {
                self.ok = false;
                self.p = self.n;
                return;
            }
            let op = self.b[self.p];
            match op {
                0x00 | 0x01 | 0xff => { self.p += 1; self.emit(op, 0); }
                0x0a | 0x0b | 0x0c | 0x0e => {
                    let (v, n, _ok) = decode_int(self.b, self.p);
                    self.p += n;
                    self.emit(op, v);
                }
                0x60..=0x6e => { self.p += 1; self.emit(op, 0); }
                0x10 => { self.p += 1; let e = self.pkg_end(); let nm = self.name(); self.emit(0x10, nm); self.list(e, depth + 1); self.emit(0xfe, 0x10); }
                0x14 => { self.p += 1; let e = self.pkg_end(); let nm = self.name(); let fl = self.b[self.p]; self.p += 1; self.emit(0x14, nm); self.emit(0xfd, fl as u64); self.list(e, depth + 1); self.emit(0xfe, 0x14); }
                0x08 => { self.p += 1; let nm = self.name(); self.emit(0x08, nm); self.term(depth + 1); }
                0xa0 => { self.p += 1; let e = self.pkg_end(); self.emit(0xa0, 0); self.term(depth + 1); self.list(e, depth + 1); self.emit(0xfe, 0xa0); }
                0xa1 => { self.p += 1; let e = self.pkg_end(); self.emit(0xa1, 0); self.list(e, depth + 1); self.emit(0xfe, 0xa1); }
                0x12 => { self.p += 1; let e = self.pkg_end(); let c = self.b[self.p]; self.p += 1; self.emit(0x12, c as u64); self.list(e, depth + 1); self.emit(0xfe, 0x12); }
                0x70 => { self.p += 1; self.emit(0x70, 0); self.term(depth + 1); self.term(depth + 1); }
                0xa4 => { self.p += 1; self.emit(0xa4, 0); self.term(depth + 1); }
                0x72 | 0x74 => { self.p += 1; self.emit(op, 0); self.term(depth + 1); self.term(depth + 1); self.term(depth + 1); }
                0x93 | 0x95 => { self.p += 1; self.emit(op, 0); self.term(depth + 1); self.term(depth + 1); }
                0x5b => {
                    let ext = self.b[self.p + 1];
                    self.p += 2;
                    if ext == 0x82 {
                        let e = self.pkg_end();
                        let nm = self.name();
                        self.emit(0x82, nm);
                        self.list(e, depth + 1);
                        self.emit(0xfe, 0x82);
                    } else {
                        self.ok = false;
                    }
                }
                _ => { self.ok = false; self.p = self.n; }
            }
        }
    }

    fn seg_val(root: bool, segs: &[[u8; 4]], cnt: usize) -> u64 {
        let mut v: u64 = if root { 1 << 63 } else { 0 };
        let mut i = 0;
        while i < 4 * cnt {
            if i < 7 {
                v ^= (segs[i / 4][i % 4] as u64) << (8 * i);
            }
            i += 1;
        }
        v ^ ((cnt as u64) << 60)
    }

    /// Scope(\\SEG0) { Device(DEV0.DEV1) { Name(NAM0, b) ; Method(MTH0, 2, Serialized) {
    ///     If (LEqual(Arg0, w)) { Return (d) } Else { Store (Add (Local0, q, Local1), Local2) } } } ;
    ///   Name(NAM1, Package { One, b2 }) }
    #[kani::proof]
    #[kani::unwind(130)]
    pub fn q_witness_nested_tree() {
        let (p_scope, _r0, s_scope) = sym_path_lead::<1>(true, b'S');
        let (p_dev, _r1, s_dev) = sym_path_lead::<2>(false, b'D');
        let (p_n0, _r2, s_n0) = sym_path_lead::<1>(false, b'N');
        let (p_m, _r3, s_m) = sym_path_lead::<1>(false, b'M');
        let (p_n1, _r4, s_n1) = sym_path_lead::<1>(false, b'_');
        // leaves: integer constants written as opaque children "prefix + symbolic payload" -- a symbolic
        // integer sent through the integer encoder would make every enclosing Vec length symbolic
        // (the encoder itself is C08's subject)
        fn leaf<const N: usize>(prefix: u8) -> (Blob<N>, u64) {
            let mut bl = Blob::<N>::any_len(N);
            bl.data[0] = prefix;
            let mut v: u64 = 0;
            let mut i = 1;
            while i < N {
                v |= (bl.data[i] as u64) << (8 * (i - 1));
                i += 1;
            }
            (bl, v)
        }
        let (b, bv) = leaf::<2>(0x0a);
        let (w, wv) = leaf::<3>(0x0b);
        let (d, dv) = leaf::<5>(0x0c);
        let (q, qv) = leaf::<9>(0x0e);
        let (b2, b2v) = leaf::<2>(0x0a);
        let name0 = Name::new(p_n0, &b);
        let eq = Equal::new(&Arg(0), &w);
        let ret = Return::new(&d);
        let iff = If::new(&eq, vec![&ret]);
        let add = Add::new(&Local(1), &Local(0), &q);
        let st = Store::new(&Local(2), &add);
        let els = Else::new(vec![&st]);
        let m = Method::new(p_m, 2, true, vec![&iff, &els]);
        let dev = Device::new(p_dev, vec![&name0, &m]);
        let pk = Package::new(vec![&ONE, &b2]);
        let name1 = Name::new(p_n1, &pk);
        let top = Scope::new(p_scope, vec![&dev, &name1]);
        let r: Rec<120> = Rec::of(&top);
        let mut dec = Dec { b: &r.buf, n: r.len, p: 0, ok: r.fits(), ev: [(0, 0); 40], nev: 0 };
        dec.term(0);
        let exp: [(u8, u64); 34] = [
            (0x10, seg_val(true, &s_scope, 1)),
            (0x82, seg_val(false, &s_dev, 2)),
            (0x08, seg_val(false, &s_n0, 1)), (0x0a, bv),
            (0x14, seg_val(false, &s_m, 1)), (0xfd, 2 | 8),
            (0xa0, 0), (0x93, 0), (0x68, 0), (0x0b, wv), (0xa4, 0), (0x0c, dv), (0xfe, 0xa0),
            (0xa1, 0), (0x70, 0), (0x72, 0), (0x60, 0), (0x0e, qv), (0x61, 0), (0x62, 0), (0xfe, 0xa1),
            (0xfe, 0x14),
            (0xfe, 0x82),
            (0x08, seg_val(false, &s_n1, 1)), (0x12, 2), (0x01, 0), (0x0a, b2v), (0xfe, 0x12),
            (0xfe, 0x10),
            (0, 0), (0, 0), (0, 0), (0, 0), (0, 0),
        ];
        let mut same = dec.nev == 29;
        let mut i = 0;
        while i < 29 {
            if dec.ev[i].0 != exp[i].0 || dec.ev[i].1 != exp[i].1 {
                same = false;
            }
            i += 1;
        }
        verdicts! {
            "C06: an independent parser consumes the emitted bytes completely, every PkgLength-delimited object ending where its last child ends": dec.ok && dec.p == r.len,
            "C06: the parser recovers the same tree (operators, operand order, names, constants, flags)": same,
        }
        kani::cover!(true, "REACHED");
    }
}
