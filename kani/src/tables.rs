//! Table-history family: one context per table type. A context owns the real table, the
//! specification-derived expected image (`TB`), and the handles returned so far. `check::<P>()`
//! asserts the property selected by `P` on the bytes received by a byte-only recorder:
//!   P=1 C01 checksum, P=2 C02 declared length, P=3 C03 tiling + summary fields,
//!   P=4 C04 whole image == reference encoding, P=5 C05 handles/references.
use crate::common::*;
use crate::kinds::{self, E};
use acpi_tables::Aml;

pub const MAXE: usize = 32;
pub const MAXR: usize = 12;

/// expected image + bookkeeping written from the specification sizes only
pub struct TB<const N: usize> {
    pub exp: Exp<N>,
    pub types: [u16; MAXE],
    pub offs: [usize; MAXE],
    pub count: usize,
    /// (absolute offset of a reference field, index of the entry it must point at, width)
    pub refs: [(usize, usize, u8); MAXR],
    pub nrefs: usize,
}

impl<const N: usize> TB<N> {
    pub fn new() -> Self {
        TB { exp: Exp::new(), types: [0; MAXE], offs: [0; MAXE], count: 0, refs: [(0, 0, 0); MAXR], nrefs: 0 }
    }
    pub fn push<const M: usize>(&mut self, e: &Exp<M>, ty: u16) -> usize {
        let off = self.exp.n;
        self.offs[self.count] = off;
        self.types[self.count] = ty;
        self.count += 1;
        self.exp.append(e);
        off
    }
    pub fn add_ref(&mut self, field_off: usize, target: usize, width: u8) {
        self.refs[self.nrefs] = (field_off, target, width);
        self.nrefs += 1;
    }
}

#[derive(Clone, Copy)]
pub struct Fmt {
    pub ty_off: usize,
    pub ty_w: usize,
    pub len_off: usize,
    pub len_w: usize,
    /// HEST: entries carry no length; size is fixed per type code
    pub hest: bool,
    /// fixed stride (MCFG 16, XSDT 8); 0 = use the length field
    pub stride: usize,
}

pub const F_U8_U8: Fmt = Fmt { ty_off: 0, ty_w: 1, len_off: 1, len_w: 1, hest: false, stride: 0 };
pub const F_U8_U16AT2: Fmt = Fmt { ty_off: 0, ty_w: 1, len_off: 2, len_w: 2, hest: false, stride: 0 };
pub const F_U16_U16AT2: Fmt = Fmt { ty_off: 0, ty_w: 2, len_off: 2, len_w: 2, hest: false, stride: 0 };
pub const F_U16_U32AT4: Fmt = Fmt { ty_off: 0, ty_w: 2, len_off: 4, len_w: 4, hest: false, stride: 0 };
pub const F_HEST: Fmt = Fmt { ty_off: 0, ty_w: 2, len_off: 0, len_w: 0, hest: true, stride: 0 };
pub const F_STRIDE16: Fmt = Fmt { ty_off: 0, ty_w: 0, len_off: 0, len_w: 0, hest: false, stride: 16 };
pub const F_STRIDE8: Fmt = Fmt { ty_off: 0, ty_w: 0, len_off: 0, len_w: 0, hest: false, stride: 8 };

pub struct Walk {
    pub types: [u16; MAXE],
    pub offs: [usize; MAXE],
    pub count: usize,
    pub ok: bool,
}

fn rd<const N: usize>(r: &Rec<N>, off: usize, w: usize) -> usize {
    match w {
        0 => 0,
        1 => r.buf[off] as usize,
        2 => r.u16(off) as usize,
        _ => r.u32(off) as usize,
    }
}

/// Specification walk: start at `first`, step by each entry's own length field, stop at the end.
pub fn walk<const N: usize>(r: &Rec<N>, first: usize, f: &Fmt) -> Walk {
    let mut w = Walk { types: [0; MAXE], offs: [0; MAXE], count: 0, ok: true };
    let end = if r.len <= N { r.len } else { N };
    let mut off = first;
    let mut steps = 0;
    while steps <= MAXE {
        if off == end {
            return w;
        }
        let hdr = if f.stride != 0 { f.stride } else if f.hest { 2 } else { f.len_off + f.len_w };
        if off + hdr > end || w.count == MAXE {
            w.ok = false;
            return w;
        }
        let ty = rd(r, off + f.ty_off, f.ty_w) as u16;
        let len = if f.stride != 0 {
            f.stride
        } else if f.hest {
            match ty {
                6 => 48,
                7 => 44,
                8 => 56,
                9 => 64,
                10 => 92,
                _ => 0,
            }
        } else {
            rd(r, off + f.len_off, f.len_w)
        };
        if len == 0 || off + len > end {
            w.ok = false;
            return w;
        }
        w.types[w.count] = ty;
        w.offs[w.count] = off;
        w.count += 1;
        off += len;
        steps += 1;
    }
    w.ok = false;
    w
}

/// The verdicts shared by every table context.
pub fn table_verdicts<const P: u8, const N: usize>(r: &Rec<N>, tb: &TB<N>, first: usize, f: &Fmt, summary_ok: bool, typed: bool) {
    assert!(r.fits(), "harness: recorder large enough");
    if P == 1 {
        // tables that append entry bytes straight to the running sum (generic add_structure / typed Vec)
        let running = f.stride != 0 || f.hest || (f.ty_w == 1 && f.len_w == 1 && first == 44);
        let rest = r.sum_skip9_mirror(&tb.offs, tb.count, first, running);
        assert!(r.buf[9].wrapping_add(rest) == 0, "C01: emitted table bytes sum to 0 mod 256");
    } else if P == 2 {
        assert!(r.u32(4) as usize == r.len, "C02: Length field at offset 4 equals the bytes emitted");
    } else if P == 3 {
        let w = walk(r, first, f);
        let mut order_ok = w.count == tb.count;
        let mut i = 0;
        while i < MAXE {
            if i < tb.count && i < w.count {
                if typed && w.types[i] != tb.types[i] {
                    order_ok = false;
                }
            }
            i += 1;
        }
        verdicts! {
            "C03: walk by the entries' own length fields lands exactly on the end of the image": w.ok,
            "C03: walk visits exactly the added entries, in insertion order, with their type codes": w.ok && order_ok,
            "C03: summary fields (counts, offsets) equal what the walk finds": summary_ok,
        }
    } else if P == 4 {
        // whole image against the reference; byte 8 (header revision) and byte 9 (checksum, C01)
        // and bytes 4..8 (length, C02) are not part of this comparison
        let mut same = r.len == tb.exp.n;
        let mut i = 0;
        while i < N {
            if i < tb.exp.n && !(i >= 4 && i <= 9) && r.buf[i] != tb.exp.b[i] {
                same = false;
            }
            i += 1;
        }
        assert!(same, "C04: image equals the specification-derived reference encoding");
    } else if P == 5 {
        let mut refs_ok = true;
        let mut types_ok = true;
        let mut i = 0;
        while i < MAXR {
            if i < tb.nrefs {
                let (foff, target, width) = tb.refs[i];
                let v = if width == 2 { r.u16(foff) as usize } else { r.u32(foff) as usize };
                if v != tb.offs[target] {
                    refs_ok = false;
                } else if typed && rd(r, v + f.ty_off, f.ty_w) as u16 != tb.types[target] {
                    types_ok = false;
                }
            }
            i += 1;
        }
        verdicts! {
            "C05: every reference built from a handle equals the byte offset of the node the handle came from": refs_ok,
            "C05: every reference resolves to the start of a node of the expected type": types_ok,
        }
    }
}

macro_rules! std_new {
    ($tb:ident, $sig:expr, $oem:ident) => {{
        let mut e = Exp::new();
        ref_header(&mut e, $sig, 0, 0, &$oem);
        $tb.exp = e;
    }};
}

// ------------------------------------------------------------------------------ XSDT / MCFG
pub struct XsdtCtx {
    pub t: acpi_tables::xsdt::XSDT,
    pub tb: TB<320>,
}
impl XsdtCtx {
    pub fn new_p(p: u8, has_adds: bool) -> Self {
        let oem = oem_for(p, has_adds);
        let mut tb: TB<320> = TB::new();
        std_new!(tb, b"XSDT", oem);
        XsdtCtx { t: acpi_tables::xsdt::XSDT::new(oem.0, oem.1, oem.2), tb }
    }
    pub fn e(&mut self) {
        let v: u64 = crate::common::sv();
        self.t.add_entry(v);
        let mut e: Exp<8> = Exp::new();
        e.u64(v);
        self.tb.push(&e, 0);
    }
    /// a fixed pointer value (`e_fixed(v)` twice adds the same pointer twice; `e_fixed(0)` adds a
    /// null pointer): the table records every pointer it is given, in order
    pub fn e_fixed(&mut self, v: u64) {
        self.t.add_entry(v);
        let mut e: Exp<8> = Exp::new();
        e.u64(v);
        self.tb.push(&e, 0);
    }
    pub fn check<const P: u8>(&self) {
        let r: Rec<320> = Rec::of(&self.t);
        table_verdicts::<P, 320>(&r, &self.tb, 36, &F_STRIDE8, true, false);
    }
}

pub struct McfgCtx {
    pub t: acpi_tables::mcfg::MCFG,
    pub tb: TB<320>,
}
impl McfgCtx {
    pub fn new_p(p: u8, has_adds: bool) -> Self {
        let oem = oem_for(p, has_adds);
        let mut tb: TB<320> = TB::new();
        std_new!(tb, b"MCFG", oem);
        tb.exp.zeros(8);
        McfgCtx { t: acpi_tables::mcfg::MCFG::new(oem.0, oem.1, oem.2), tb }
    }
    pub fn e(&mut self) {
        let base: u64 = crate::common::sv();
        let seg: u16 = crate::common::sv();
        let s: u8 = crate::common::sv();
        let e_: u8 = crate::common::sv();
        self.t.add_ecam(base, seg, s, e_);
        let mut e: Exp<16> = Exp::new();
        e.u64(base).u16(seg).u8(s).u8(e_).zeros(4);
        self.tb.push(&e, 0);
    }
    /// an allocation whose segment group and bus range are fixed (and so collide with every other
    /// `e_same` call): the crate records what it is given, it does not merge or drop allocations
    pub fn e_same(&mut self) {
        let base: u64 = crate::common::sv();
        self.t.add_ecam(base, 7, 0, 255);
        let mut e: Exp<16> = Exp::new();
        e.u64(base).u16(7).u8(0).u8(255).zeros(4);
        self.tb.push(&e, 0);
    }
    pub fn check<const P: u8>(&self) {
        let r: Rec<320> = Rec::of(&self.t);
        table_verdicts::<P, 320>(&r, &self.tb, 44, &F_STRIDE16, true, false);
    }
}

// ------------------------------------------------------------------------------ MADT
pub struct MadtCtx {
    pub t: acpi_tables::madt::MADT,
    pub tb: TB<320>,
}
impl MadtCtx {
    pub fn new_p(p: u8, has_adds: bool) -> Self {
        use acpi_tables::madt::*;
        let oem = oem_for(p, has_adds);
        let mut tb: TB<320> = TB::new();
        std_new!(tb, b"APIC", oem);
        let riscv: bool = crate::common::sv();
        let addr: u32 = crate::common::sv();
        tb.exp.u32(if riscv { 0 } else { addr }).u32(0);
        let lic = if riscv { LocalInterruptController::Riscv } else { LocalInterruptController::Address(addr) };
        MadtCtx { t: MADT::new(oem.0, oem.1, oem.2, lic), tb }
    }
    fn go<T>(&mut self, o: T, e: E, ty: u16)
    where
        T: Aml + zerocopy::IntoBytes + zerocopy::Immutable + Clone + 'static,
    {
        self.t.add_structure(o);
        self.tb.push(&e, ty);
    }
    pub fn lapic(&mut self) {
        let (o, e) = kinds::madt::lapic();
        self.go(o, e, 0);
    }
    pub fn ioapic(&mut self) {
        let (o, e) = kinds::madt::ioapic();
        self.go(o, e, 1);
    }
    pub fn gicc(&mut self) {
        let (o, e) = kinds::madt::gicc();
        self.go(o, e, 0xb);
    }
    pub fn gicd(&mut self) {
        let (o, e) = kinds::madt::gicd();
        self.go(o, e, 0xc);
    }
    pub fn gicmsi(&mut self, with_spi: bool) {
        let (o, e) = kinds::madt::gicmsi(with_spi);
        self.go(o, e, 0xd);
    }
    pub fn gicr(&mut self) {
        let (o, e) = kinds::madt::gicr();
        self.go(o, e, 0xe);
    }
    pub fn gicits(&mut self) {
        let (o, e) = kinds::madt::gicits();
        self.go(o, e, 0xf);
    }
    pub fn rintc(&mut self) {
        let (o, e) = kinds::madt::rintc();
        self.go(o, e, 0x18);
    }
    pub fn imsic(&mut self) {
        let (o, e) = kinds::madt::imsic();
        self.t.add_imsic(o);
        self.tb.push(&e, 0x19);
    }
    pub fn aplic(&mut self) {
        let (o, e) = kinds::madt::aplic();
        self.go(o, e, 0x1a);
    }
    pub fn plic(&mut self) {
        let (o, e) = kinds::madt::plic();
        self.go(o, e, 0x1b);
    }
    pub fn check<const P: u8>(&self) {
        let r: Rec<320> = Rec::of(&self.t);
        table_verdicts::<P, 320>(&r, &self.tb, 44, &F_U8_U8, true, true);
    }
}

// ------------------------------------------------------------------------------ SRAT
pub struct SratCtx {
    pub t: acpi_tables::srat::SRAT,
    pub tb: TB<256>,
}
impl SratCtx {
    pub fn new_p(p: u8, has_adds: bool) -> Self {
        let oem = oem_for(p, has_adds);
        let mut tb: TB<256> = TB::new();
        std_new!(tb, b"SRAT", oem);
        tb.exp.u32(1).u64(0);
        SratCtx { t: acpi_tables::srat::SRAT::new(oem.0, oem.1, oem.2), tb }
    }
    pub fn mem(&mut self, mask: u8) {
        let (o, e) = kinds::srat::mem(mask);
        self.t.add_memory_affinity(o);
        self.tb.push(&e, 1);
    }
    pub fn giacpi(&mut self, mask: u8) {
        let (o, e) = kinds::srat::gi(false, mask);
        self.t.add_generic_initiator(o);
        self.tb.push(&e, 5);
    }
    pub fn gipci(&mut self, mask: u8) {
        let (o, e) = kinds::srat::gi(true, mask);
        self.t.add_generic_initiator(o);
        self.tb.push(&e, 5);
    }
    pub fn rintc(&mut self, enabled: bool) {
        let (o, e) = kinds::srat::rintc(enabled);
        self.t.add_rintc_affinity(o);
        self.tb.push(&e, 7);
    }
    pub fn check<const P: u8>(&self) {
        let r: Rec<256> = Rec::of(&self.t);
        table_verdicts::<P, 256>(&r, &self.tb, 48, &F_U8_U8, true, true);
    }
}

// ------------------------------------------------------------------------------ HMAT
pub struct HmatCtx {
    pub t: acpi_tables::hmat::HMAT,
    pub tb: TB<320>,
}
impl HmatCtx {
    pub fn new_p(p: u8, has_adds: bool) -> Self {
        let oem = oem_for(p, has_adds);
        let mut tb: TB<320> = TB::new();
        std_new!(tb, b"HMAT", oem);
        tb.exp.u32(0);
        HmatCtx { t: acpi_tables::hmat::HMAT::new(oem.0, oem.1, oem.2), tb }
    }
    pub fn prox(&mut self) {
        let (o, e) = kinds::hmat::prox();
        self.t.add_memory_proximity(o);
        self.tb.push(&e, 0);
    }
    pub fn loc(&mut self, ni: usize, nt: usize, opts: u8) {
        let (o, e) = kinds::hmat::loc(ni, nt, opts);
        self.t.add_system_locality(o);
        self.tb.push(&e, 1);
    }
    pub fn msc(&mut self, nh: usize) {
        let (o, e) = kinds::hmat::msc(nh);
        self.t.add_memory_side_cache(o);
        self.tb.push(&e, 2);
    }
    pub fn check<const P: u8>(&self) {
        let r: Rec<320> = Rec::of(&self.t);
        // per-entry element counts: SLLBI initiator/target counts and MSC handle count tile the entry
        let w = walk(&r, 40, &F_U16_U32AT4);
        let mut sub_ok = true;
        let mut i = 0;
        while i < MAXE {
            if i < w.count {
                let o = w.offs[i];
                let len = r.u32(o + 4) as usize;
                if w.types[i] == 1 {
                    let ni = r.u32(o + 12) as usize;
                    let nt = r.u32(o + 16) as usize;
                    if 32 + 4 * ni + 4 * nt + 2 * ni * nt != len {
                        sub_ok = false;
                    }
                } else if w.types[i] == 2 {
                    let nh = r.u16(o + 30) as usize;
                    if 32 + 2 * nh != len {
                        sub_ok = false;
                    }
                } else if len != 40 {
                    sub_ok = false;
                }
            }
            i += 1;
        }
        table_verdicts::<P, 320>(&r, &self.tb, 40, &F_U16_U32AT4, sub_ok, true);
    }
}

// ------------------------------------------------------------------------------ PPTT
pub struct PpttCtx {
    pub t: acpi_tables::pptt::PPTT,
    pub tb: TB<320>,
    pub procs: Vec<(acpi_tables::pptt::ProcessorHandle, usize)>,
    pub caches: Vec<(acpi_tables::pptt::CacheHandle, usize)>,
}
impl PpttCtx {
    pub fn new_p(p: u8, has_adds: bool) -> Self {
        let oem = oem_for(p, has_adds);
        let mut tb: TB<320> = TB::new();
        std_new!(tb, b"PPTT", oem);
        PpttCtx { t: acpi_tables::pptt::PPTT::new(oem.0, oem.1, oem.2), tb, procs: Vec::new(), caches: Vec::new() }
    }
    /// cache node; next level = most recent cache handle if any
    pub fn cache(&mut self) {
        use kinds::pptt as p;
        let idx = self.tb.count;
        let off = self.tb.exp.n;
        let next = self.caches.last().map(|(h, i)| (h, self.tb.offs[*i] as u32));
        let next_idx = self.caches.last().map(|x| x.1);
        let (o, e) = p::cache_node(next);
        let h = self.t.add_cache(o);
        self.tb.push(&e, 1);
        if let Some(ti) = next_idx {
            self.tb.add_ref(off + 8, ti, 4);
        }
        self.caches.push((h, idx));
    }
    /// processor with `take` private resources (the most recent cache handles; the sequence author
    /// guarantees that many exist), parent = most recent processor if any
    pub fn proc_(&mut self, take: usize, mask: u8) {
        use kinds::pptt as p;
        let idx = self.tb.count;
        let off = self.tb.exp.n;
        let parent = self.procs.last().map(|(h, i)| (h, self.tb.offs[*i] as u32));
        let parent_idx = self.procs.last().map(|x| x.1);
        let avail = self.caches.len();
        let mut cs: Vec<(&acpi_tables::pptt::CacheHandle, u32)> = Vec::with_capacity(take);
        let mut j = 0;
        while j < take {
            let (h, i) = &self.caches[avail - take + j];
            cs.push((h, self.tb.offs[*i] as u32));
            j += 1;
        }
        let (o, e) = p::proc_node(parent, &cs, mask);
        let h = self.t.add_processor(o);
        self.tb.push(&e, 0);
        if let Some(ti) = parent_idx {
            self.tb.add_ref(off + 8, ti, 4);
        }
        let mut j = 0;
        while j < take {
            let ti = self.caches[avail - take + j].1;
            self.tb.add_ref(off + 20 + 4 * j, ti, 4);
            j += 1;
        }
        self.procs.push((h, idx));
    }
    pub fn check<const P: u8>(&self) {
        let r: Rec<320> = Rec::of(&self.t);
        // per-entry element count: processor private-resource count tiles the node
        let w = walk(&r, 36, &F_U8_U8);
        let mut sub_ok = true;
        let mut i = 0;
        while i < MAXE {
            if i < w.count && w.types[i] == 0 {
                let o = w.offs[i];
                if 20 + 4 * (r.u32(o + 16) as usize) != r.buf[o + 1] as usize {
                    sub_ok = false;
                }
            }
            i += 1;
        }
        table_verdicts::<P, 320>(&r, &self.tb, 36, &F_U8_U8, sub_ok, true);
    }
}

// ------------------------------------------------------------------------------ RHCT
pub struct RhctCtx {
    pub t: acpi_tables::rhct::RHCT,
    pub tb: TB<320>,
    pub isas: Vec<(acpi_tables::rhct::IsaStringHandle, usize)>,
    pub cmos: Vec<(acpi_tables::rhct::CmoHandle, usize)>,
}
impl RhctCtx {
    pub fn new_p(p: u8, has_adds: bool) -> Self {
        let oem = oem_for(p, has_adds);
        let freq: u64 = crate::common::sv();
        let mut tb: TB<320> = TB::new();
        std_new!(tb, b"RHCT", oem);
        // flags/reserved 4, time base frequency 8, number of nodes 4 (patched by summary), offset 4
        tb.exp.u32(0).u64(freq).u32(0).u32(56);
        RhctCtx { t: acpi_tables::rhct::RHCT::new(oem.0, oem.1, oem.2, freq), tb, isas: Vec::new(), cmos: Vec::new() }
    }
    fn bump(&mut self) {
        // node count lives in the header at offset 48
        let c = (self.tb.count as u32).to_le_bytes();
        let mut i = 0;
        while i < 4 {
            self.tb.exp.b[48 + i] = c[i];
            i += 1;
        }
    }
    pub fn isa<const L: usize>(&mut self) {
        let idx = self.tb.count;
        let (s, bytes) = sym_static_str::<L>();
        let h = self.t.add_isa_string(s);
        let e = kinds::rhct::isa_exp::<L>(&bytes);
        self.tb.push(&e, 0);
        self.isas.push((h, idx));
        self.bump();
    }
    pub fn isa0(&mut self) {
        self.isa::<0>()
    }
    pub fn isa1(&mut self) {
        self.isa::<1>()
    }
    pub fn isa2(&mut self) {
        self.isa::<2>()
    }
    pub fn isa3(&mut self) {
        self.isa::<3>()
    }
    pub fn isa6(&mut self) {
        self.isa::<6>()
    }
    pub fn cmo(&mut self) {
        let idx = self.tb.count;
        let (o, e) = kinds::rhct::cmo();
        let hd = self.t.add_cmo(o);
        self.tb.push(&e, 1);
        self.cmos.push((hd, idx));
        self.bump();
    }
    pub fn mmu(&mut self) {
        let (o, e) = kinds::rhct::mmu();
        self.t.add_mmu_node(o);
        self.tb.push(&e, 2);
        self.bump();
    }
    /// hart info referencing the first ISA string and the first `take` CMO nodes (which must exist)
    pub fn hart(&mut self, take: usize) {
        let off = self.tb.exp.n;
        let (ih, ii) = &self.isas[0];
        let mut cs: Vec<(&acpi_tables::rhct::CmoHandle, u32)> = Vec::with_capacity(take);
        let mut j = 0;
        while j < take {
            let (hh, i) = &self.cmos[j];
            cs.push((hh, self.tb.offs[*i] as u32));
            j += 1;
        }
        let (o, e) = kinds::rhct::hart((ih, self.tb.offs[*ii] as u32), &cs);
        let ii = *ii;
        self.t.add_hart_info(o);
        self.tb.push(&e, 0xffff);
        self.tb.add_ref(off + 12, ii, 4);
        let mut j = 0;
        while j < take {
            let ti = self.cmos[j].1;
            self.tb.add_ref(off + 16 + 4 * j, ti, 4);
            j += 1;
        }
        self.bump();
    }
    pub fn check<const P: u8>(&self) {
        let r: Rec<320> = Rec::of(&self.t);
        let first = r.u32(52) as usize;
        let w = walk(&r, first, &F_U16_U16AT2);
        let mut sub_ok = r.u32(48) as usize == w.count && first == 56;
        let mut i = 0;
        while i < MAXE {
            if i < w.count {
                let o = w.offs[i];
                let len = r.u16(o + 2) as usize;
                if w.types[i] == 0 {
                    // ISA string length counts the NUL; node is padded to an even size
                    let sl = r.u16(o + 6) as usize;
                    if 8 + sl + (sl % 2) != len || sl == 0 || r.buf[o + 8 + sl - 1] != 0 {
                        sub_ok = false;
                    }
                } else if w.types[i] == 0xffff {
                    if 12 + 4 * (r.u16(o + 6) as usize) != len {
                        sub_ok = false;
                    }
                }
            }
            i += 1;
        }
        table_verdicts::<P, 320>(&r, &self.tb, first, &F_U16_U16AT2, sub_ok, true);
    }
}

// ------------------------------------------------------------------------------ RIMT
pub struct RimtCtx {
    pub t: acpi_tables::rimt::RIMT,
    pub tb: TB<384>,
    /// most recent IOMMU: (handle, expected offset, entry index)
    pub last: Option<(acpi_tables::rimt::IommuOffset, u32, usize)>,
}
impl RimtCtx {
    pub fn new_p(p: u8, has_adds: bool) -> Self {
        let oem = oem_for(p, has_adds);
        let mut tb: TB<384> = TB::new();
        std_new!(tb, b"RIMT", oem);
        tb.exp.u32(0).u32(48).u32(0);
        RimtCtx { t: acpi_tables::rimt::RIMT::new(oem.0, oem.1, oem.2), tb, last: None }
    }
    fn bump(&mut self) {
        let c = (self.tb.count as u32).to_le_bytes();
        let mut i = 0;
        while i < 4 {
            self.tb.exp.b[36 + i] = c[i];
            i += 1;
        }
    }
    /// IOMMU(wires: None / Some(k), pci, prox)
    pub fn iommu(&mut self, w: Option<usize>, pci: bool, prox: bool) {
        let idx = self.tb.count;
        let off = self.tb.exp.n;
        let (o, e) = kinds::rimt::iommu(w, pci, prox);
        let h = self.t.add_iommu(o);
        self.tb.push(&e, 0);
        self.last = Some((h, off as u32, idx));
        self.bump();
    }
    /// root complex; Some(m) mappings point at the most recent IOMMU (the sequence author guarantees one)
    pub fn rc(&mut self, maps: Option<usize>) {
        let off = self.tb.exp.n;
        let (dst, ti) = if maps.is_some() {
            let (h, o, i) = self.last.unwrap();
            (Some((h, o)), i)
        } else {
            (None, 0)
        };
        let (o, e) = kinds::rimt::root_complex(maps, dst);
        self.t.add_pcie_root_complex(o);
        self.tb.push(&e, 1);
        let mut j = 0;
        while j < maps.unwrap_or(0) {
            self.tb.add_ref(off + 16 + 20 * j + 12, ti, 4);
            j += 1;
        }
        self.bump();
    }
    pub fn plat<const L: usize>(&mut self, maps: Option<usize>) {
        let off = self.tb.exp.n;
        let (dst, ti) = if maps.is_some() {
            let (h, o, i) = self.last.unwrap();
            (Some((h, o)), i)
        } else {
            (None, 0)
        };
        let (o, e) = kinds::rimt::platform::<L>(maps, dst);
        self.t.add_platform(o);
        self.tb.push(&e, 2);
        let mut j = 0;
        while j < maps.unwrap_or(0) {
            self.tb.add_ref(off + 12 + L + 1 + 20 * j + 12, ti, 4);
            j += 1;
        }
        self.bump();
    }
    pub fn plat0(&mut self, maps: Option<usize>) {
        self.plat::<0>(maps)
    }
    pub fn plat3(&mut self, maps: Option<usize>) {
        self.plat::<3>(maps)
    }
    pub fn plat4(&mut self, maps: Option<usize>) {
        self.plat::<4>(maps)
    }
    pub fn check<const P: u8>(&self) {
        let r: Rec<384> = Rec::of(&self.t);
        let first = r.u32(40) as usize;
        let w = walk(&r, first, &F_U8_U16AT2);
        let mut sub_ok = r.u32(36) as usize == w.count && first == 48;
        let mut i = 0;
        while i < MAXE {
            if i < w.count {
                let o = w.offs[i];
                let len = r.u16(o + 2) as usize;
                match w.types[i] {
                    0 => {
                        // wires: count @28, array offset @30
                        let n = r.u16(o + 28) as usize;
                        let ao = r.u16(o + 30) as usize;
                        if ao + 8 * n != len {
                            sub_ok = false;
                        }
                    }
                    1 => {
                        // id mappings: array offset @12, count @14
                        let ao = r.u16(o + 12) as usize;
                        let n = r.u16(o + 14) as usize;
                        if ao + 20 * n != len || ao != 16 {
                            sub_ok = false;
                        }
                    }
                    _ => {
                        // platform: array offset @8, count @10, NUL-terminated name from 12
                        let ao = r.u16(o + 8) as usize;
                        let n = r.u16(o + 10) as usize;
                        if ao + 20 * n != len || ao < 13 || r.buf[o + ao - 1] != 0 {
                            sub_ok = false;
                        }
                    }
                }
            }
            i += 1;
        }
        table_verdicts::<P, 384>(&r, &self.tb, first, &F_U8_U16AT2, sub_ok, true);
    }
}
// ------------------------------------------------------------------------------ VIOT
pub struct ViotCtx {
    pub t: acpi_tables::viot::VIOT,
    pub tb: TB<256>,
    pub hs: Vec<(acpi_tables::viot::TranslationHandle, usize)>,
}
impl ViotCtx {
    pub fn new_p(p: u8, has_adds: bool) -> Self {
        let oem = oem_for(p, has_adds);
        let mut tb: TB<256> = TB::new();
        std_new!(tb, b"VIOT", oem);
        tb.exp.u16(0).u16(48).u64(0);
        ViotCtx { t: acpi_tables::viot::VIOT::new(oem.0, oem.1, oem.2), tb, hs: Vec::new() }
    }
    fn bump(&mut self) {
        let c = (self.tb.count as u16).to_le_bytes();
        self.tb.exp.b[36] = c[0];
        self.tb.exp.b[37] = c[1];
    }
    pub fn pciiommu(&mut self) {
        let idx = self.tb.count;
        let (o, e) = kinds::viot::pci_iommu();
        let h = self.t.add_virtio_pci_iommu(o);
        self.tb.push(&e, 3);
        self.hs.push((h, idx));
        self.bump();
    }
    pub fn mmioiommu(&mut self) {
        let idx = self.tb.count;
        let (o, e) = kinds::viot::mmio_iommu();
        let h = self.t.add_virtio_mmio_iommu(o);
        self.tb.push(&e, 4);
        self.hs.push((h, idx));
        self.bump();
    }
    /// endpoints reference translation handle number `which` (0 = first returned)
    pub fn pcirange(&mut self, which: usize) {
        let off = self.tb.exp.n;
        let (h, i) = &self.hs[which];
        let (o, e) = kinds::viot::pci_range((h, self.tb.offs[*i] as u16));
        let ti = *i;
        self.t.add_pci_range(o);
        self.tb.push(&e, 1);
        self.tb.add_ref(off + 16, ti, 2);
        self.bump();
    }
    pub fn mmioep(&mut self, which: usize) {
        let off = self.tb.exp.n;
        let (h, i) = &self.hs[which];
        let (o, e) = kinds::viot::mmio_ep((h, self.tb.offs[*i] as u16));
        let ti = *i;
        self.t.add_mmio_endpoint(o);
        self.tb.push(&e, 2);
        self.tb.add_ref(off + 16, ti, 2);
        self.bump();
    }
    pub fn check<const P: u8>(&self) {
        let r: Rec<256> = Rec::of(&self.t);
        let first = r.u16(38) as usize;
        let w = walk(&r, first, &F_U8_U16AT2);
        let sub_ok = r.u16(36) as usize == w.count && first == 48;
        table_verdicts::<P, 256>(&r, &self.tb, first, &F_U8_U16AT2, sub_ok, true);
    }
}

// ------------------------------------------------------------------------------ CEDT
pub struct CedtCtx {
    pub t: acpi_tables::cedt::CEDT,
    pub tb: TB<320>,
}
impl CedtCtx {
    pub fn new_p(p: u8, has_adds: bool) -> Self {
        let oem = oem_for(p, has_adds);
        let mut tb: TB<320> = TB::new();
        std_new!(tb, b"CEDT", oem);
        CedtCtx { t: acpi_tables::cedt::CEDT::new(oem.0, oem.1, oem.2), tb }
    }
    pub fn chbs(&mut self) {
        let (o, e) = kinds::cedt::chbs();
        self.t.add_host_bridge(o);
        self.tb.push(&e, 0);
    }
    /// CFMWS(ways code, restriction mask)
    pub fn cfmws(&mut self, wc: u8, mask: u8) {
        let (o, e) = kinds::cedt::cfmws(wc, mask);
        self.t.add_fixed_memory(o);
        self.tb.push(&e, 1);
    }
    pub fn cxims(&mut self, n: usize) {
        let (o, e) = kinds::cedt::cxims(n);
        self.t.add_xor_interleave_math(o);
        self.tb.push(&e, 2);
    }
    pub fn rdpas(&mut self) {
        let (o, e) = kinds::cedt::rdpas();
        self.t.add_port_association(o);
        self.tb.push(&e, 3);
    }
    pub fn check<const P: u8>(&self) {
        let r: Rec<320> = Rec::of(&self.t);
        let w = walk(&r, 36, &F_U8_U16AT2);
        let mut sub_ok = true;
        let mut i = 0;
        while i < MAXE {
            if i < w.count {
                let o = w.offs[i];
                let len = r.u16(o + 2) as usize;
                if w.types[i] == 1 {
                    let (_w, n) = kinds::cedt::ways_of(r.buf[o + 24]);
                    if 36 + 4 * n != len {
                        sub_ok = false;
                    }
                } else if w.types[i] == 2 {
                    if 8 + 8 * (r.buf[o + 7] as usize) != len {
                        sub_ok = false;
                    }
                }
            }
            i += 1;
        }
        table_verdicts::<P, 320>(&r, &self.tb, 36, &F_U8_U16AT2, sub_ok, true);
    }
}

// ------------------------------------------------------------------------------ HEST
pub struct HestCtx {
    pub t: acpi_tables::hest::HEST,
    pub tb: TB<384>,
}
impl HestCtx {
    pub fn new_p(p: u8, has_adds: bool) -> Self {
        let oem = oem_for(p, has_adds);
        let mut tb: TB<384> = TB::new();
        std_new!(tb, b"HEST", oem);
        tb.exp.u32(0);
        HestCtx { t: acpi_tables::hest::HEST::new(oem.0, oem.1, oem.2), tb }
    }
    fn go<T>(&mut self, o: T, e: E, ty: u16)
    where
        T: Aml + zerocopy::IntoBytes + zerocopy::Immutable + Clone + 'static,
    {
        self.t.add_structure(o);
        self.tb.push(&e, ty);
        let c = (self.tb.count as u32).to_le_bytes();
        let mut i = 0;
        while i < 4 {
            self.tb.exp.b[36 + i] = c[i];
            i += 1;
        }
    }
    pub fn rootport(&mut self, global: bool) {
        let (o, e) = kinds::hest::root_port(global);
        self.go(o, e, 6);
    }
    pub fn device(&mut self, global: bool) {
        let (o, e) = kinds::hest::device(global);
        self.go(o, e, 7);
    }
    pub fn bridge(&mut self, global: bool) {
        let (o, e) = kinds::hest::bridge(global);
        self.go(o, e, 8);
    }
    pub fn ghes(&mut self) {
        let (o, e) = kinds::hest::ghes();
        self.go(o, e, 9);
    }
    pub fn ghesv2(&mut self) {
        let (o, e) = kinds::hest::ghes_v2();
        self.go(o, e, 10);
    }
    pub fn check<const P: u8>(&self) {
        let r: Rec<384> = Rec::of(&self.t);
        let w = walk(&r, 40, &F_HEST);
        let sub_ok = r.u32(36) as usize == w.count;
        table_verdicts::<P, 384>(&r, &self.tb, 40, &F_HEST, sub_ok, true);
    }
}

// ------------------------------------------------------------------------------ RQSC
pub struct RqscCtx {
    pub t: acpi_tables::rqsc::RQSC,
    pub tb: TB<192>,
}
impl RqscCtx {
    pub fn new_p(p: u8, has_adds: bool) -> Self {
        let oem = oem_for(p, has_adds);
        let mut tb: TB<192> = TB::new();
        std_new!(tb, b"RQSC", oem);
        tb.exp.u32(0);
        RqscCtx { t: acpi_tables::rqsc::RQSC::new(oem.0, oem.1, oem.2), tb }
    }
    fn go(&mut self, o: acpi_tables::rqsc::QoSController, e: E) {
        self.t.add_controller(o);
        self.tb.push(&e, 0);
        let c = (self.tb.count as u32).to_le_bytes();
        let mut i = 0;
        while i < 4 {
            self.tb.exp.b[36 + i] = c[i];
            i += 1;
        }
    }
    /// controller with the listed resource-ID kinds (0 cache, 1 memory, 2 ACPI, 3 PCI, 4 vendor)
    pub fn c0(&mut self) {
        let (o, e) = kinds::rqsc::controller(&[]);
        self.go(o, e);
    }
    pub fn c1(&mut self, a: u8) {
        let (o, e) = kinds::rqsc::controller(&[a]);
        self.go(o, e);
    }
    pub fn c2(&mut self, a: u8, b: u8) {
        let (o, e) = kinds::rqsc::controller(&[a, b]);
        self.go(o, e);
    }
    pub fn check<const P: u8>(&self) {
        let r: Rec<192> = Rec::of(&self.t);
        let w = walk(&r, 40, &F_U8_U16AT2);
        let mut sub_ok = r.u32(36) as usize == w.count;
        // resources tile each controller: count @26, first resource @28, each type @0 len @2
        let mut i = 0;
        while i < MAXE {
            if i < w.count {
                let o = w.offs[i];
                let len = r.u16(o + 2) as usize;
                let nres = r.u16(o + 26) as usize;
                let mut p = 28;
                let mut j = 0;
                while j < 3 {
                    if j < nres {
                        if p + 4 > len {
                            sub_ok = false;
                        } else {
                            let rl = r.u16(o + p + 2) as usize;
                            if rl < 8 {
                                sub_ok = false;
                            }
                            p += rl;
                        }
                    }
                    j += 1;
                }
                if p != len || nres > 3 {
                    sub_ok = false;
                }
            }
            i += 1;
        }
        if P == 1 {
            // RQSC recomputes its checksum from scratch in emission order: the in-order fold is the
            // association order to offer the SAT back end (same value as any other order)
            assert!(r.fits(), "harness: recorder large enough");
            assert!(r.buf[9].wrapping_add(r.sum_skip9()) == 0, "C01: emitted table bytes sum to 0 mod 256");
            return;
        }
        // controller type is data (0/1), not a kind discriminator: order is checked by count only
        table_verdicts::<P, 192>(&r, &self.tb, 40, &F_U8_U16AT2, sub_ok, false);
    }
}

// ------------------------------------------------------------------------------ any-length step (DESIGN 2.4 layer 2)
/// One pass-through call `verif_update_header(sum, len)` with symbolic `sum` and `len <= 2^24` stands for
/// "earlier entries totalling `len` bytes with byte-sum `sum` were added" -- executed by the crate's own
/// private update function. Then one real add. P=1: emitted bytes + ghost sum == 0 (mod 256);
/// P=2: declared length == emitted + ghost length. Every header length is in the query at once, so every
/// byte-boundary carry of the Length field (255->256, 65535->65536, ...) is covered without listing it.
#[macro_export]
macro_rules! anylen {
    ($name:ident, $ctx:ident, $n:expr, $unw:expr, ($sum:ident, $len:ident) => $ghost:expr, [$($m:ident ( $($a:expr),* )),+]) => {
        #[kani::proof]
        #[kani::unwind($unw)]
        #[kani::solver(z3)]
        pub fn $name() {
            let mut c = $crate::tables::$ctx::new_p(P, true);
            let $sum: u8 = kani::any();
            let $len: u32 = kani::any();
            kani::assume($len <= (1 << 24));
            {
                let t = &mut c.t;
                let _ = &t;
                ($ghost)(t);
            }
            $( c.$m($($a),*); )+
            let r: $crate::common::Rec<$n> = $crate::common::Rec::of(&c.t);
            assert!(r.fits(), "harness: recorder large enough");
            if P == 1 {
                let rest = r.sum_skip9();
                assert!(r.buf[9].wrapping_add(rest).wrapping_add($sum) == 0, "C01: emitted bytes plus the earlier entries' sum are 0 mod 256 from any prior length");
            } else if P == 2 {
                assert!(r.u32(4) as u64 == r.len as u64 + $len as u64, "C02: Length field == bytes emitted + bytes of the earlier entries, from any prior length");
            }
            kani::cover!($len == 255 - 48 || true, "REACHED");
        }
    };
}

// ------------------------------------------------------------------------------ sequence macro
/// `P` is a const of the including module. Asserts after construction and after every add.
/// Steps are written as method calls with literal arguments (`[mem(5), rintc(false)]`): shape
/// parameters must reach the crate as compile-time constants -- routing them through an enum payload
/// turns them into union byte-extracts that CBMC no longer constant-propagates, and every allocation
/// size and loop bound downstream becomes symbolic.
#[macro_export]
macro_rules! seq {
    ($name:ident, $ctx:ident, $unw:expr, [$($m:ident ( $($a:expr),* )),* $(,)?]) => {
        #[kani::proof]
        #[kani::unwind($unw)]
        pub fn $name() {
            #[allow(unused_mut)]
            let steps: &[&str] = &[$(stringify!($m)),*];
            let has_adds = steps.len() > 0;
            let mut c = $crate::tables::$ctx::new_p(P, has_adds);
            kani::cover!(true, "CALLING");
            c.check::<P>();
            $(
                c.$m($($a),*);
                c.check::<P>();
            )*
            kani::cover!(true, "REACHED");
        }
    };
}

/// Concrete twin of `seq!` (see `common::FIXED`): every entry value is the concrete pattern
/// `$mode - 1`, so same-kind entries are identical; the OEM fields stay symbolic. Asserts on the final image.
#[macro_export]
macro_rules! seqfx {
    ($name:ident, $ctx:ident, $unw:expr, $mode:expr, [$($m:ident ( $($a:expr),* )),* $(,)?]) => {
        #[kani::proof]
        #[kani::unwind($unw)]
        pub fn $name() {
            unsafe { $crate::common::FIXED = $mode };
            let mut c = $crate::tables::$ctx::new_p(P, true);
            kani::cover!(true, "CALLING");
            $(
                c.$m($($a),*);
            )*
            c.check::<P>();
            kani::cover!(true, "REACHED");
        }
    };
}

/// Same as `seq!` but asserts only on the final image (long same-kind runs whose prefixes are
/// covered by the shorter sequences; used for the Length-field carry histories).
#[macro_export]
macro_rules! seq_end {
    ($name:ident, $ctx:ident, $unw:expr, [$($m:ident ( $($a:expr),* )),* $(,)?]) => {
        #[kani::proof]
        #[kani::unwind($unw)]
        pub fn $name() {
            #[allow(unused_mut)]
            let mut c = $crate::tables::$ctx::new_p(P, true);
            $(
                c.$m($($a),*);
            )*
            c.check::<P>();
            kani::cover!(true, "REACHED");
        }
    };
}
