//! C11 — option builders set exactly their own specification bit, independently.
//! Each harness runs a symbolic *program*: k calls, each a symbolic choice among the structure's
//! option builders (all subsets, orders and repetitions up to k in one query), then compares the
//! emitted bytes with the option-free object: the flag field must be the OR of the specification
//! bits of the chosen options and every other byte must be unchanged (or the value supplied).
use crate::common::*;
use acpi_tables::Aml;

pub mod c11 {
    use super::*;

    /// bytes equal except inside [lo, hi)
    fn same_outside<const N: usize>(a: &Rec<N>, b: &Rec<N>, lo: usize, hi: usize) -> bool {
        let mut ok = a.len == b.len;
        let mut i = 0;
        while i < N {
            if i < a.len && !(i >= lo && i < hi) && a.buf[i] != b.buf[i] {
                ok = false;
            }
            i += 1;
        }
        ok
    }

    macro_rules! program {
        ($k:expr, $nops:expr, |$op:ident| $body:block) => {{
            let mut step = 0;
            while step < $k {
                let $op: u8 = kani::any();
                kani::assume($op < $nops);
                $body
                step += 1;
            }
        }};
    }

    // ------------------------------------------------------------------ SRAT
    fn srat_mem(k: usize) {
        use acpi_tables::srat::MemoryAffinity;
        let (pd, base, len): (u32, u64, u64) = (kani::any(), kani::any(), kani::any());
        let mut m = MemoryAffinity::new(pd, base, len);
        let mut mask = 0u32;
        program!(k, 3, |op| {
            match op {
                0 => { m = m.enabled(); mask |= 1; }
                1 => { m = m.hotpluggable(); mask |= 2; }
                _ => { m = m.nonvolatile(); mask |= 4; }
            }
        });
        let r: Rec<40> = Rec::of(&m);
        let r0: Rec<40> = Rec::of(&MemoryAffinity::new(pd, base, len));
        verdicts! {
            "C11: SRAT memory affinity flags = OR of enabled(1) hot-pluggable(2) non-volatile(4)": r.u32(28) == mask,
            "C11: options change nothing outside the flags field": same_outside(&r, &r0, 28, 32),
        }
        kani::cover!(mask == 7, "REACHED");
    }
    #[kani::proof]
    #[kani::unwind(44)]
    pub fn q_srat_memory_affinity_k3() {
        srat_mem(3);
    }
    #[kani::proof]
    #[kani::unwind(44)]
    pub fn t_srat_memory_affinity_k5() {
        srat_mem(5);
    }

    fn srat_gi(k: usize, pci: bool) {
        use acpi_tables::srat::{GenericInitiator, Handle};
        let pd: u32 = kani::any();
        let hid: [u8; 8] = kani::any();
        let uid: [u8; 4] = kani::any();
        let seg: u16 = kani::any();
        let bus: u8 = kani::any();
        let (d, f) = crate::kinds::any_dev_fn();
        let mk = || if pci { Handle::new_pci(seg, bus, d, f) } else { Handle::new_acpi(hid, uid) };
        let mut g = GenericInitiator::new(pd, mk());
        let mut mask = 0u32;
        program!(k, 2, |op| {
            match op {
                0 => { g = g.enabled(); mask |= 1; }
                _ => { g = g.architectural(); mask |= 2; }
            }
        });
        let r: Rec<32> = Rec::of(&g);
        let r0: Rec<32> = Rec::of(&GenericInitiator::new(pd, mk()));
        verdicts! {
            "C11: SRAT generic initiator flags = OR of enabled(1) architectural-transactions(2)": r.u32(24) == mask,
            "C11: options change nothing outside the flags field": same_outside(&r, &r0, 24, 28),
        }
        kani::cover!(mask == 3, "REACHED");
    }
    #[kani::proof]
    #[kani::unwind(36)]
    pub fn q_srat_generic_initiator_acpi_k3() {
        srat_gi(3, false);
    }
    #[kani::proof]
    #[kani::unwind(36)]
    pub fn q_srat_generic_initiator_pci_k3() {
        srat_gi(3, true);
    }

    #[kani::proof]
    #[kani::unwind(24)]
    pub fn q_srat_rintc_affinity() {
        use acpi_tables::srat::RintcAffinity;
        let uid: [u8; 4] = kani::any();
        let clock: u32 = kani::any();
        let twice: bool = kani::any();
        let mut a = RintcAffinity::new(uid, clock).enabled();
        if twice {
            a = a.enabled();
        }
        let r: Rec<20> = Rec::of(&a);
        let r0: Rec<20> = Rec::of(&RintcAffinity::new(uid, clock));
        verdicts! {
            "C11: SRAT RINTC affinity: no option, flags 0": r0.u32(12) == 0,
            "C11: SRAT RINTC affinity: enabled sets bit 0 only": r.u32(12) == 1,
            "C11: options change nothing outside the flags field": same_outside(&r, &r0, 12, 16),
        }
        kani::cover!(true, "REACHED");
    }

    // ------------------------------------------------------------------ PPTT
    fn pptt_proc(k: usize) {
        use acpi_tables::pptt::ProcessorNode;
        let id: u32 = kani::any();
        let mut p = ProcessorNode::new(None, id);
        let mut mask = 0u32;
        program!(k, 5, |op| {
            match op {
                0 => { p = p.physical(); mask |= 1; }
                1 => { p = p.valid(); mask |= 2; }
                2 => { p = p.thread(); mask |= 4; }
                3 => { p = p.leaf(); mask |= 8; }
                _ => { p = p.identical(); mask |= 16; }
            }
        });
        let r: Rec<20> = Rec::of(&p);
        let r0: Rec<20> = Rec::of(&ProcessorNode::new(None, id));
        verdicts! {
            "C11: PPTT processor flags = OR of physical(1) id-valid(2) thread(4) leaf(8) identical(16)": r.u32(4) == mask,
            "C11: options change nothing outside the flags field": same_outside(&r, &r0, 4, 8),
        }
        kani::cover!(mask == 31, "REACHED-ALL");
        kani::cover!(mask == 0 || true, "REACHED");
    }
    #[kani::proof]
    #[kani::unwind(24)]
    pub fn q_pptt_processor_k3() {
        pptt_proc(3);
    }
    #[kani::proof]
    #[kani::unwind(24)]
    pub fn t_pptt_processor_k6() {
        pptt_proc(6);
    }

    fn pptt_cache(k: usize) {
        use acpi_tables::pptt::*;
        let mut b = CacheNodeBuilder::default();
        let (mut flags, mut size, mut sets, mut assoc, mut attrs, mut line, mut id) = (0u32, 0u32, 0u32, 0u8, 0u8, 0u16, 0u32);
        program!(k, 8, |op| {
            match op {
                0 => { let v: u32 = kani::any(); b = b.size(v); size = v; flags |= 1; }
                1 => { let v: u32 = kani::any(); b = b.sets(v); sets = v; flags |= 2; }
                2 => { let v: u8 = kani::any(); b = b.associativity(v); assoc = v; flags |= 4; }
                3 => {
                    let (a, c) = sym_enum!(AllocationType::Read => 0u8, AllocationType::Write => 1, AllocationType::Both => 2);
                    b = b.allocation_type(a); attrs |= c; flags |= 8;
                }
                4 => {
                    let (a, c) = sym_enum!(CacheType::Data => 0u8, CacheType::Instruction => 4, CacheType::Unified => 8);
                    b = b.cache_type(a); attrs |= c; flags |= 16;
                }
                5 => {
                    let (a, c) = sym_enum!(WritePolicy::Writeback => 0u8, WritePolicy::Writethrough => 16);
                    b = b.write_policy(a); attrs |= c; flags |= 32;
                }
                6 => { let v: u16 = kani::any(); b = b.line_size(v); line = v; flags |= 64; }
                _ => { let v: u32 = kani::any(); b = b.id(v); id = v; flags |= 128; }
            }
        });
        let r: Rec<28> = Rec::of(&b.to_node());
        verdicts! {
            "C11: PPTT cache flags = OR of the valid bits of exactly the attributes supplied": r.u32(4) == flags,
            "C11: PPTT cache attributes = union of the specification bits of the chosen enum options": r.buf[21] == attrs,
            "C11: PPTT cache: each supplied value lands in its own field, others stay 0": r.u32(12) == size && r.u32(16) == sets && r.buf[20] == assoc && r.u16(22) == line && r.u32(24) == id && r.u32(8) == 0,
            "C11: PPTT cache: type 1, length 28, reserved 0": r.buf[0] == 1 && r.buf[1] == 28 && r.u16(2) == 0 && r.len == 28,
        }
        kani::cover!(flags == 0b111, "REACHED");
    }
    #[kani::proof]
    #[kani::unwind(32)]
    pub fn q_pptt_cache_k3() {
        pptt_cache(3);
    }
    #[kani::proof]
    #[kani::unwind(32)]
    pub fn t_pptt_cache_k9() {
        pptt_cache(9);
    }

    // ------------------------------------------------------------------ CEDT CFMWS
    fn cfmws(k: usize) {
        use acpi_tables::cedt::*;
        let (base, size, qtg): (u64, u64, u16) = (kani::any(), kani::any(), kani::any());
        let mk = || CxlFixedMemory::new(base, size, InterleaveArithmetic::Modulo, InterleaveGranularity::Granularity256b, InterleaveWays::Ways1, qtg);
        let mut f = mk();
        let mut mask = 0u16;
        program!(k, 5, |op| {
            match op {
                0 => { f = f.cxl_type_2_memory(); mask |= 1; }
                1 => { f = f.cxl_type_3_memory(); mask |= 2; }
                2 => { f = f.volatile(); mask |= 4; }
                3 => { f = f.persistent(); mask |= 8; }
                _ => { f = f.fixed_configuration(); mask |= 16; }
            }
        });
        let t: [u8; 4] = kani::any();
        f.add_target(t);
        let mut f0 = mk();
        f0.add_target(t);
        let r: Rec<40> = Rec::of(&f);
        let r0: Rec<40> = Rec::of(&f0);
        verdicts! {
            "C11: CFMWS window restrictions = OR of type2(1) type3(2) volatile(4) persistent(8) fixed-config(16)": r.u16(32) == mask,
            "C11: options change nothing outside the restrictions field": same_outside(&r, &r0, 32, 34),
        }
        kani::cover!(mask == 2, "REACHED-TYPE3-ONLY");
        kani::cover!(true, "REACHED");
    }
    #[kani::proof]
    #[kani::unwind(44)]
    pub fn q_cedt_cfmws_k3() {
        cfmws(3);
    }
    #[kani::proof]
    #[kani::unwind(44)]
    pub fn t_cedt_cfmws_k6() {
        cfmws(6);
    }

    // ------------------------------------------------------------------ TCPA server (flags part of the builder chain)
    fn tcpa(k: usize) {
        let (t, m, _oem) = crate::fixed::tcpa_server_chain(k);
        let r: Rec<104> = Rec::of(&t);
        verdicts! {
            "C11: TCPA device flags = OR of pci(1) pnp(2) config-address-valid(4)": r.buf[58] == m.dev_flags,
            "C11: TCPA interrupt flags = OR of edge(1) active-low(2) sci-gpe(4) gsi(8)": r.buf[59] == m.int_flags,
            "C11: TCPA values gated by a flag equal the values supplied": r.buf[60] == m.gpe && r.u32(64) == m.gsi
                && r.buf[96] == m.sbdf[0] && r.buf[97] == m.sbdf[1] && r.buf[98] == m.sbdf[2] && r.buf[99] == m.sbdf[3],
            "C11: TCPA log area untouched unless supplied": r.u64(40) == m.laml && r.u64(48) == m.lasa,
        }
        kani::cover!(true, "REACHED");
    }
    #[kani::proof]
    #[kani::unwind(110)]
    pub fn q_tcpa_server_k2() {
        tcpa(2);
    }
    #[kani::proof]
    #[kani::unwind(110)]
    pub fn t_tcpa_server_k4() {
        tcpa(4);
    }

    // ------------------------------------------------------------------ MADT GICC / GIC MSI / enable states
    fn gicc(k: usize) {
        use acpi_tables::madt::*;
        let (st, stf) = sym_enum!(EnabledStatus::Disabled => 0u32, EnabledStatus::Enabled => 1, EnabledStatus::DisabledOnlineCapable => 8);
        let mut g = Gicc::new(st);
        let mut flags = stf;
        let (mut perf, mut maint) = (0u32, 0u32);
        program!(k, 2, |op| {
            let gsi: u32 = kani::any();
            let edge: bool = kani::any();
            let trig = if edge { Trigger::Edge } else { Trigger::Level };
            match op {
                0 => { g = g.performance_interrupt(gsi, trig); perf = gsi; if edge { flags |= 2; } }
                _ => { g = g.maintenance_interrupt(gsi, trig); maint = gsi; if edge { flags |= 4; } }
            }
        });
        let r: Rec<82> = Rec::of(&g);
        let r0: Rec<82> = Rec::of(&Gicc::new(st));
        let mut rest = r.len == r0.len;
        let mut i = 0;
        while i < 82 {
            let governed = (i >= 12 && i < 16) || (i >= 20 && i < 24) || (i >= 56 && i < 60);
            if !governed && r.buf[i] != r0.buf[i] {
                rest = false;
            }
            i += 1;
        }
        verdicts! {
            "C11: GICC flags = enabled(1)/online-capable(8) from the status, OR perf-edge(2), OR maintenance-edge(4)": r.u32(12) == flags,
            "C11: GICC interrupt numbers equal the values supplied": r.u32(20) == perf && r.u32(56) == maint,
            "C11: GICC options change nothing else": rest && r.u32(16) == 0,
        }
        kani::cover!(flags & 6 == 6, "REACHED");
    }
    #[kani::proof]
    #[kani::unwind(90)]
    pub fn q_madt_gicc_k2() {
        gicc(2);
    }
    #[kani::proof]
    #[kani::unwind(90)]
    pub fn t_madt_gicc_k4() {
        gicc(4);
    }

    #[kani::proof]
    #[kani::unwind(28)]
    pub fn q_madt_gic_msi_frame() {
        use acpi_tables::madt::GicMsi;
        let (id, base, cnt, sb): (u32, u64, u16, u16) = (kani::any(), kani::any(), kani::any(), kani::any());
        let r0: Rec<24> = Rec::of(&GicMsi::new().gic_msi_frame_id(id).base_addr(base));
        let r1: Rec<24> = Rec::of(&GicMsi::new().gic_msi_frame_id(id).base_addr(base).spi_count_and_base(cnt, sb));
        let r2: Rec<24> = Rec::of(&GicMsi::new().spi_count_and_base(cnt, sb).gic_msi_frame_id(id).base_addr(base));
        verdicts! {
            "C11: GIC MSI frame: SPI Count/Base Select flag clear when no values were supplied": r0.u32(16) == 0 && r0.u16(20) == 0 && r0.u16(22) == 0,
            "C11: GIC MSI frame: SPI Count/Base Select flag set exactly when the values were supplied": r1.u32(16) == 1 && r1.u16(20) == cnt && r1.u16(22) == sb,
            "C11: GIC MSI frame: option order does not matter": r1.eq_bytes(&r2.buf, r2.len),
            "C11: GIC MSI frame: the option changes nothing outside flags/count/base": same_outside(&r1, &r0, 16, 24),
        }
        kani::cover!(true, "REACHED");
    }

    // ------------------------------------------------------------------ HMAT locality flags
    fn hmat_loc(k: usize) {
        use acpi_tables::hmat::*;
        let ltc: u8 = kani::any();
        kani::assume(ltc <= 3);
        let lt = |c: u8| match c {
            0 => LocalityType::Memory,
            1 => LocalityType::FirstLevelCache,
            2 => LocalityType::SecondLevelCache,
            _ => LocalityType::ThirdLevelCache,
        };
        let unit: u64 = kani::any();
        let mut s = SystemLocality::new(lt(ltc), DataType::ReadLatency, MinTransferSize::Size64b, unit, 1, 1);
        let mut flags = ltc;
        program!(k, 2, |op| {
            match op {
                0 => { s.minimum_transfer_size_required(); flags |= 0x10; }
                _ => { s.non_sequential_transfers(); flags |= 0x20; }
            }
        });
        let r: Rec<44> = Rec::of(&s);
        let r0: Rec<44> = Rec::of(&SystemLocality::new(lt(ltc), DataType::ReadLatency, MinTransferSize::Size64b, unit, 1, 1));
        verdicts! {
            "C11: HMAT locality flags = memory hierarchy (bits 3:0) OR min-transfer-size(0x10) OR non-sequential(0x20)": r.buf[8] == flags,
            "C11: options change nothing outside the flags byte": same_outside(&r, &r0, 8, 9),
        }
        kani::cover!(flags & 0x30 == 0x30, "REACHED");
    }
    #[kani::proof]
    #[kani::unwind(48)]
    pub fn q_hmat_locality_k2() {
        hmat_loc(2);
    }
    #[kani::proof]
    #[kani::unwind(48)]
    pub fn t_hmat_locality_k4() {
        hmat_loc(4);
    }

    // ------------------------------------------------------------------ FADT: one step from an arbitrary prior state
    #[kani::proof]
    #[kani::unwind(290)]
    pub fn q_fadt_flag_one_step() {
        use acpi_tables::fadt::*;
        use zerocopy::IntoBytes;
        let oem = sym_oem();
        let mut b = FADTBuilder::new(oem.0, oem.1, oem.2);
        let prior: u32 = kani::any();
        let pp: u8 = kani::any();
        b.flags = prior.into();
        b.preferred_pm_profile = pp;
        let mut before = [0u8; 276];
        before.copy_from_slice(b.as_bytes());
        let fi: usize = kani::any();
        kani::assume(fi < 25);
        let b2 = b.flag(crate::fixed::FADT_FLAGS[fi].0);
        let after = b2.as_bytes();
        let mut rest = true;
        let mut i = 0;
        while i < 276 {
            if !(i >= 112 && i < 116) && after[i] != before[i] {
                rest = false;
            }
            i += 1;
        }
        let got = u32::from_le_bytes([after[112], after[113], after[114], after[115]]);
        verdicts! {
            "C11: FADT flag(f) ORs exactly the specification bit of f into the flags field": got == prior | crate::fixed::FADT_FLAGS[fi].1,
            "C11: FADT flag(f) changes nothing outside the flags field": rest,
        }
        kani::cover!(true, "REACHED");
    }

    #[kani::proof]
    #[kani::unwind(290)]
    pub fn q_fadt_profile_and_enable_one_step() {
        use acpi_tables::fadt::*;
        use zerocopy::IntoBytes;
        let oem = sym_oem();
        let mut b = FADTBuilder::new(oem.0, oem.1, oem.2);
        let prior: u32 = kani::any();
        b.flags = prior.into();
        b.sci_int = kani::any::<u16>().into();
        let mut before = [0u8; 276];
        before.copy_from_slice(b.as_bytes());
        let (p, pc) = sym_enum!(PmProfile::Unspecified => 0u8, PmProfile::Desktop => 1, PmProfile::Mobile => 2, PmProfile::Workstation => 3,
            PmProfile::EnterpriseServer => 4, PmProfile::SohoServer => 5, PmProfile::AppliancePc => 6, PmProfile::PerformanceServer => 7, PmProfile::Tablet => 8);
        let which: bool = kani::any();
        let b2 = if which { b.preferred_pm_profile(p).acpi_enable() } else { b.acpi_disable().preferred_pm_profile(p) };
        let after = b2.as_bytes();
        let mut rest = true;
        let mut i = 0;
        while i < 276 {
            if i != 45 && i != 52 && i != 53 && after[i] != before[i] {
                rest = false;
            }
            i += 1;
        }
        verdicts! {
            "C11: FADT preferred PM profile byte equals the specification value of the profile": after[45] == pc,
            "C11: FADT acpi_enable/acpi_disable govern only their two bytes": (after[52], after[53]) == (if which { (1, 0) } else { (0, 1) }),
            "C11: FADT profile/enable options change nothing else": rest,
        }
        kani::cover!(true, "REACHED");
    }

    // ------------------------------------------------------------------ HEST firmware-first / global
    #[kani::proof]
    #[kani::unwind(60)]
    pub fn q_hest_aer_flags() {
        use acpi_tables::hest::*;
        let ffe: bool = kani::any();
        let bus: u8 = kani::any();
        let (d, f) = crate::kinds::any_dev_fn();
        let ff = if ffe { FirmwareFirst::Enabled } else { FirmwareFirst::Disabled };
        let rp: Rec<48> = Rec::of(&PcieAerRootPort::new_root_port(ff, PciDevice::new(bus, d, f)));
        let rg: Rec<48> = Rec::of(&PcieAerRootPort::new_global());
        let dp: Rec<44> = Rec::of(&PcieAerDevice::new_root_port(ff, PciDevice::new(bus, d, f)));
        let dg: Rec<44> = Rec::of(&PcieAerDevice::new_global());
        let bp: Rec<56> = Rec::of(&PcieAerBridge::new_bridge(ff, PciDevice::new(bus, d, f)));
        let bg: Rec<56> = Rec::of(&PcieAerBridge::new_global());
        verdicts! {
            "C11: HEST AER flags: FIRMWARE_FIRST is bit 0, set exactly when requested": rp.buf[6] == ffe as u8 && dp.buf[6] == ffe as u8 && bp.buf[6] == ffe as u8,
            "C11: HEST AER flags: GLOBAL is bit 1": rg.buf[6] == 2 && dg.buf[6] == 2 && bg.buf[6] == 2,
            "C11: HEST AER: bus/device/function supplied only for the non-global form": rp.u32(16) == bus as u32 && rp.u16(20) == d as u16 && rp.u16(22) == f as u16 && rg.u32(16) == 0 && rg.u32(20) == 0,
        }
        kani::cover!(true, "REACHED");
    }

    // ------------------------------------------------------------------ RIMT booleans are independent bits
    #[kani::proof]
    #[kani::unwind(48)]
    pub fn q_rimt_booleans() {
        use acpi_tables::rimt::*;
        let (lvl, hi, ats, pri, pci, prox): (bool, bool, bool, bool, bool, bool) = (kani::any(), kani::any(), kani::any(), kani::any(), kani::any(), kani::any());
        let w: Rec<8> = Rec::of(&InterruptWire::new(kani::any(), lvl, hi, kani::any()));
        let rc: Rec<16> = Rec::of(&PcieRootComplex::new(kani::any(), kani::any(), ats, pri, None));
        let (d, f) = crate::kinds::any_dev_fn();
        let io: Rec<32> = Rec::of(&Iommu::new(kani::any(), None,
            if pci { Some(PciDevice::new(kani::any(), kani::any(), d, f)) } else { None },
            if prox { Some(kani::any()) } else { None }, None));
        verdicts! {
            "C11: RIMT wire flags: level(1) polarity-high(2), independent": w.u16(4) == (lvl as u16) | ((hi as u16) << 1),
            "C11: RIMT root complex flags: ATS(1) PRI(2), independent": rc.u32(8) == (ats as u32) | ((pri as u32) << 1),
            "C11: RIMT IOMMU flags: PCI device present(1), proximity domain valid(2), set exactly when supplied": io.u32(16) == (pci as u32) | ((prox as u32) << 1),
        }
        kani::cover!(true, "REACHED");
    }
}
