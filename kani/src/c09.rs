//! C09 — name paths encode to the specification's NameString form and back.
//! Encoding half: symbolic segments through the Path hook (all byte values, a superset of the AML
//! name alphabet). Scanning half: `Path::new` on enumerated concrete strings (DESIGN 2.6).
use crate::common::*;
use acpi_tables::aml::Path;
use acpi_tables::Aml;

pub mod c09 {
    use super::*;

    /// decode a NameString (ACPI 6.5 20.2.2): returns (rooted, segment count, offset of first segment, ok)
    fn decode_namestring<const N: usize>(r: &Rec<N>) -> (bool, usize, usize, bool) {
        let mut p = 0;
        let rooted = r.buf[0] == 0x5c;
        if rooted {
            p = 1;
        }
        let (count, start) = if r.buf[p] == 0x2e {
            (2, p + 1)
        } else if r.buf[p] == 0x2f {
            (r.buf[p + 1] as usize, p + 2)
        } else {
            (1, p)
        };
        (rooted, count, start, start + 4 * count == r.len)
    }

    macro_rules! enc_harness {
        ($name:ident, $s:expr, $root:expr, $n:expr, $unw:expr) => {
            #[kani::proof]
            #[kani::unwind($unw)]
            pub fn $name() {
                let (p, root, segs) = sym_path_r::<$s>($root);
                let r: Rec<$n> = Rec::of(&p);
                let mut e: Exp<$n> = Exp::new();
                ref_namestring(&mut e, root, &segs);
                let (drooted, dcount, dstart, dok) = decode_namestring(&r);
                let mut segs_back = dok && dcount == $s;
                let mut i = 0;
                while i < $s {
                    let mut j = 0;
                    while j < 4 {
                        if dok && r.buf[dstart + 4 * i + j] != segs[i][j] {
                            segs_back = false;
                        }
                        j += 1;
                    }
                    i += 1;
                }
                // decoding is only unambiguous for names over the AML alphabet [A-Z_][A-Z0-9_]{3}
                let mut alpha = true;
                let mut i = 0;
                while i < $s {
                    let c = segs[i];
                    let lead = (c[0] >= b'A' && c[0] <= b'Z') || c[0] == b'_';
                    let mut rest = true;
                    let mut j = 1;
                    while j < 4 {
                        if !((c[j] >= b'A' && c[j] <= b'Z') || c[j] == b'_' || (c[j] >= b'0' && c[j] <= b'9')) {
                            rest = false;
                        }
                        j += 1;
                    }
                    if !(lead && rest) {
                        alpha = false;
                    }
                    i += 1;
                }
                verdicts! {
                    "C09: path equals [RootChar] [DualNamePrefix | MultiNamePrefix SegCount] NameSegs": r.eq_bytes(&e.b, e.n),
                    "C09: decoding returns the same rootedness": !alpha || drooted == root,
                    "C09: decoding returns the same segments": !alpha || segs_back,
                }
                kani::cover!(true, "REACHED");
            }
        };
    }
    enc_harness!(q_enc_1, 1, false, 8, 12);
    enc_harness!(q_enc_1_rooted, 1, true, 8, 12);
    enc_harness!(q_enc_2, 2, false, 12, 16);
    enc_harness!(q_enc_2_rooted, 2, true, 12, 16);
    enc_harness!(q_enc_3, 3, true, 16, 20);
    enc_harness!(q_enc_4, 4, false, 20, 24);
    enc_harness!(t_enc_3_unrooted, 3, false, 16, 20);
    enc_harness!(t_enc_5, 5, true, 24, 28);
    enc_harness!(t_enc_16, 16, false, 68, 72);
    enc_harness!(t_enc_254, 254, true, 1024, 1030);
    enc_harness!(t_enc_255, 255, false, 1024, 1030);

    #[kani::proof]
    #[kani::unwind(6)]
    pub fn q_enc_0_refuse() {
        let root: bool = kani::any();
        let p = Path::verif_from_parts(root, Vec::new());
        kani::cover!(true, "CALLING");
        let r: Rec<4> = Rec::of(&p);
        assert!(r.len > 9, "C09: a path with no segment was emitted");
    }

    /// `Path::new` on a concrete string: bytes must be the reference encoding of the listed segments
    macro_rules! scan_ok {
        ($name:ident, $str:expr, $root:expr, [$($seg:expr),+], $n:expr) => {
            #[kani::proof]
            #[kani::unwind(40)]
            pub fn $name() {
                let p = Path::new($str);
                let r: Rec<$n> = Rec::of(&p);
                let segs = [$(*$seg),+];
                let mut e: Exp<$n> = Exp::new();
                ref_namestring(&mut e, $root, &segs);
                assert!(r.eq_bytes(&e.b, e.n), "C09: Path::new hands the segments of the string to the encoder unchanged");
                kani::cover!(true, "REACHED");
            }
        };
    }
    scan_ok!(q_scan_1, "AB_9", false, [b"AB_9"], 8);
    scan_ok!(q_scan_1_rooted, "\\_SB_", true, [b"_SB_"], 8);
    scan_ok!(q_scan_2, "_SB_.PCI0", false, [b"_SB_", b"PCI0"], 12);
    scan_ok!(q_scan_3_rooted, "\\_SB_.PCI0.Z09_", true, [b"_SB_", b"PCI0", b"Z09_"], 16);
    // strings of 16 bytes or more (e.g. any 4-segment path) and strings that end in a separator drive
    // core::str's memchr into its word-at-a-time / one-past-the-end pointer code, which CBMC cannot
    // resolve (> 600 s): outside the bound of the scanning half, stated in DESIGN.md 2.6.
    scan_ok!(q_scan_3, "AAAA.BBBB.CCCC", false, [b"AAAA", b"BBBB", b"CCCC"], 16);
    scan_ok!(t_scan_2_rooted, "\\QXZ_.A1B2", true, [b"QXZ_", b"A1B2"], 12);

    /// malformed strings must be refused (a segment of length 0..3 or 5..8, stray dots)
    macro_rules! scan_refuse {
        ($name:ident, $str:expr) => {
            #[kani::proof]
            #[kani::unwind(40)]
            pub fn $name() {
                kani::cover!(true, "CALLING");
                let p = Path::new($str);
                let r: Rec<40> = Rec::of(&p);
                assert!(r.len > 1000, "C09: a path containing a segment that is not exactly four characters was accepted");
            }
        };
    }
    scan_refuse!(q_scan_refuse_empty, "");
    /// strings that END in a separator (or consist of the root character only): the remainder after the
    /// last separator is an empty slice. Taken as a prefix of a longer literal, so that the empty
    /// remainder points inside its allocation (a one-past-the-end pointer is what CBMC cannot resolve).
    macro_rules! scan_refuse_prefix {
        ($name:ident, $str:expr, $n:expr) => {
            #[kani::proof]
            #[kani::unwind(40)]
            pub fn $name() {
                kani::cover!(true, "CALLING");
                let full: &str = $str;
                let p = Path::new(&full[..$n]);
                let r: Rec<40> = Rec::of(&p);
                assert!(r.len > 1000, "C09: a path containing a segment that is not exactly four characters was accepted");
            }
        };
    }
    scan_refuse_prefix!(q_scan_refuse_trailing_dot, "ABCD.XXXX", 5);
    scan_refuse_prefix!(q_scan_refuse_trailing_dot_2seg, "\\ABCD.EFGH.XXXX", 11);
    scan_refuse_prefix!(q_scan_refuse_root_only, "\\XXXX", 1);
    scan_refuse!(q_scan_refuse_len1, "A");
    scan_refuse!(q_scan_refuse_len2, "AB");
    scan_refuse!(q_scan_refuse_len3, "ABC");
    scan_refuse!(q_scan_refuse_len5, "ABCDE");
    scan_refuse!(q_scan_refuse_len6, "ABCDEF");
    scan_refuse!(q_scan_refuse_len7, "\\ABCDEFG");
    scan_refuse!(q_scan_refuse_len8, "ABCDEFGH");
    scan_refuse!(q_scan_refuse_first_short, "ABC.DEFG");
    scan_refuse!(q_scan_refuse_second_short, "ABCD.EF");
    scan_refuse!(q_scan_refuse_second_long, "\\ABCD.EFGHI");
    scan_refuse!(q_scan_refuse_first_long, "ABCDE.FGHI");
    scan_refuse!(q_scan_refuse_leading_dot, ".ABCD");
    scan_refuse!(q_scan_refuse_double_dot, "ABCD..EFGH");
    scan_refuse!(q_scan_refuse_third_short, "ABCD.EFGH.I");
    scan_refuse!(q_scan_refuse_third_long, "ABCD.EFGH.IJKLM");
    scan_refuse!(q_scan_refuse_middle_empty, "\\ABCD..IJKL");
    // several wrong-length segments that together fill whole "XXXX." strides (total length 5n-1,
    // a dot at every fifth byte where one is due): a stride-based scanner that only checks the
    // total length and the separator positions accepts these (seeded change C09_r4M)
    scan_refuse!(q_scan_refuse_stride_2_1, "AB.C");
    scan_refuse!(q_scan_refuse_stride_1_2, "A.BC");
    scan_refuse!(q_scan_refuse_stride_0_3, ".ABC");
    scan_refuse!(q_scan_refuse_stride_1_0_1, "A..B");
    scan_refuse!(q_scan_refuse_stride_dots, "....");
    scan_refuse_prefix!(q_scan_refuse_stride_3_0, "ABC.XXXX", 4);
    scan_refuse!(q_scan_refuse_stride_rooted_2_1, "\\AB.C");
    scan_refuse!(q_scan_refuse_stride_first_2_1_then_4, "AB.C.DEFG");
    scan_refuse!(q_scan_refuse_stride_4_then_1_2, "ABCD.E.FG");
    scan_refuse!(q_scan_refuse_stride_4_then_0_3, "ABCD..EFG");
    scan_refuse_prefix!(q_scan_refuse_stride_4_then_3_0, "ABCD.EFG.XXXX", 9);
    scan_refuse!(q_scan_refuse_stride_rooted_4_then_2_1, "\\ABCD.EF.G");
    scan_refuse!(q_scan_refuse_stride_3seg_mid, "_SB_.ABC..PCI0");
    scan_refuse!(q_scan_refuse_stride_3seg_last, "ABCD.EFGH.I.JK");
    scan_refuse!(t_scan_refuse_second_len0_of3, "ABCD..IJKL");
    scan_refuse!(t_scan_refuse_second_len3_of3, "ABCD.EFG.IJKL");
    scan_refuse!(t_scan_refuse_second_len5_of3, "ABC.EFGHX.IJKL");
    scan_refuse!(t_scan_refuse_first_len2_of3, "AB.EFGH.IJKL");
    scan_refuse!(t_scan_refuse_first_len6_of3, "ABCDEF.EFGH");
    scan_refuse!(t_scan_refuse_third_len8_of3, "AB.EF.IJKLMNOP");
    scan_refuse!(t_scan_refuse_rooted_second_len1, "\\ABCD.E");
}
