//! C14 — output is deterministic and independent of the receiving sink.
use crate::common::*;
use crate::kinds;
use acpi_tables::aml::PackageBuilder;
use acpi_tables::sdt::Sdt;
use acpi_tables::{Aml, Checksum};

pub mod c14 {
    use super::*;

    /// serialise `obj` into every sink kind and compare the concatenations
    fn sinks<T: Aml, const N: usize>(obj: &T, with_sdt: bool) {
        let r: Rec<N> = Rec::of(obj); // only the mandatory byte() method
        let mut v: Vec<u8> = Vec::new(); // the built-in vector sink (overrides vec())
        obj.to_aml_bytes(&mut v);
        let mut v2: Vec<u8> = Vec::new();
        obj.to_aml_bytes(&mut v2);
        obj.to_aml_bytes(&mut v2); // twice into the same sink: concatenation of two copies
        let mut a: AllSink<N> = AllSink::new(); // overrides every method
        obj.to_aml_bytes(&mut a);
        let mut c = Checksum::default();
        obj.to_aml_bytes(&mut c);
        let mut pb = PackageBuilder::new();
        pb.add_element(obj);
        let mut same_vec = v.len() == r.len && v2.len() == 2 * r.len;
        let mut same_all = a.r.len == r.len;
        let mut i = 0;
        while i < N {
            if i < r.len {
                if i < v.len() && v[i] != r.buf[i] {
                    same_vec = false;
                }
                if i < v2.len() && i + r.len < v2.len() && (v2[i] != r.buf[i] || v2[i + r.len] != r.buf[i]) {
                    same_vec = false;
                }
                if a.r.buf[i] != r.buf[i] {
                    same_all = false;
                }
            }
            i += 1;
        }
        // package builder: 12 PkgLength count elements
        let mut rp: Rec<N> = Rec::new();
        let mut rp_ok = true;
        {
            let mut big: Vec<u8> = Vec::new();
            pb.to_aml_bytes(&mut big);
            let (_val, pn, _f) = decode_pkglen(&big, 1);
            let start = 1 + pn + 1;
            if big.len() != start + r.len || big[1 + pn] != 1 {
                rp_ok = false;
            }
            let mut j = 0;
            while j < N {
                if j < r.len && start + j < big.len() && big[start + j] != r.buf[j] {
                    rp_ok = false;
                }
                j += 1;
            }
            let _ = &mut rp;
        }
        let mut sdt_ok = true;
        if with_sdt {
            let mut s = Sdt::new(*b"TEST", 36, 1, [0; 6], [0; 8], 0);
            obj.to_aml_bytes(&mut s);
            let sl = s.as_slice();
            if sl.len() != 36 + r.len {
                sdt_ok = false;
            }
            let mut j = 0;
            while j < N {
                if j < r.len && 36 + j < sl.len() && sl[36 + j] != r.buf[j] {
                    sdt_ok = false;
                }
                j += 1;
            }
        }
        verdicts! {
            "C14: recorder large enough": r.fits(),
            "C14: vector sink receives the same bytes as a byte-only sink, and again on a second serialisation": same_vec,
            "C14: a sink overriding every entry point receives the same concatenation": same_all,
            "C14: checksum sink raw value equals the arithmetic sum of the serialised bytes": c.raw_value() == r.sum(),
            "C14: u8sum helper equals the arithmetic sum of the serialised bytes": acpi_tables::u8sum(obj) == r.sum(),
            "C14: package-builder sink receives the same bytes": rp_ok,
            "C14: generic-table sink receives the same bytes": sdt_ok,
        }
        kani::cover!(true, "REACHED");
    }

    fn raw_eq<T: Aml + zerocopy::IntoBytes + zerocopy::Immutable, const N: usize>(obj: &T) {
        let r: Rec<N> = Rec::of(obj);
        let raw = obj.as_bytes();
        assert!(r.eq_bytes(raw, raw.len()), "C14: raw in-memory form equals the serialised form");
    }

    macro_rules! obj_h {
        ($name:ident, $mk:expr, $n:expr, $sdt:expr, $unw:expr) => {
            #[kani::proof]
            #[kani::unwind($unw)]
            pub fn $name() {
                let (o, _e) = $mk;
                sinks::<_, $n>(&o, $sdt);
            }
        };
    }
    macro_rules! raw_h {
        ($name:ident, $mk:expr, $n:expr, $unw:expr) => {
            #[kani::proof]
            #[kani::unwind($unw)]
            pub fn $name() {
                let (o, _e) = $mk;
                raw_eq::<_, $n>(&o);
                kani::cover!(true, "REACHED");
            }
        };
    }

    // table entries (symbolic arguments)
    obj_h!(q_madt_lapic, kinds::madt::lapic(), 16, true, 60);
    obj_h!(q_madt_gicd, kinds::madt::gicd(), 32, false, 70);
    obj_h!(q_madt_rintc, kinds::madt::rintc(), 48, false, 60);
    obj_h!(q_madt_plic, kinds::madt::plic(), 48, false, 60);
    obj_h!(t_madt_gicc, kinds::madt::gicc(), 96, false, 110);
    obj_h!(t_madt_aplic, kinds::madt::aplic(), 48, false, 60);
    obj_h!(q_srat_mem, kinds::srat::mem(5), 48, false, 60);
    obj_h!(q_srat_gi_pci, kinds::srat::gi(true, 3), 40, false, 90);
    obj_h!(t_srat_gi_acpi, kinds::srat::gi(false, 1), 40, false, 60);
    obj_h!(q_srat_rintc, kinds::srat::rintc(true), 24, false, 70);
    obj_h!(q_hmat_prox, kinds::hmat::prox(), 48, false, 60);
    obj_h!(q_hmat_loc22, kinds::hmat::loc(2, 2, 3), 64, false, 80);
    obj_h!(q_hmat_msc2, kinds::hmat::msc(2), 48, false, 60);
    obj_h!(q_pptt_proc0, kinds::pptt::proc_node(None, &[], 9), 24, false, 70);
    obj_h!(q_pptt_cache, kinds::pptt::cache_node(None), 32, false, 80);
    obj_h!(q_rhct_cmo, kinds::rhct::cmo(), 12, true, 60);
    obj_h!(q_viot_pci_iommu, kinds::viot::pci_iommu(), 20, true, 60);
    obj_h!(t_viot_mmio_iommu, kinds::viot::mmio_iommu(), 20, false, 60);
    obj_h!(q_rimt_iommu2, kinds::rimt::iommu(Some(2), false, true), 56, false, 70);
    obj_h!(q_rimt_rc0, kinds::rimt::root_complex(None, None), 20, false, 60);
    obj_h!(q_rimt_plat3, kinds::rimt::platform::<3>(None, None), 20, false, 60);
    obj_h!(q_cedt_chbs, kinds::cedt::chbs(), 40, false, 60);
    obj_h!(q_cedt_cfmws2, kinds::cedt::cfmws(1, 9), 48, false, 60);
    obj_h!(q_cedt_cxims1, kinds::cedt::cxims(1), 20, true, 60);
    obj_h!(q_cedt_rdpas, kinds::cedt::rdpas(), 20, false, 60);
    obj_h!(q_hest_device, kinds::hest::device(false), 48, false, 60);
    obj_h!(t_hest_rootport, kinds::hest::root_port(true), 52, false, 60);
    obj_h!(t_hest_ghes, kinds::hest::ghes(), 68, false, 80);
    obj_h!(q_hest_notification, kinds::hest::notification(), 32, false, 70);
    obj_h!(q_rqsc_resource_pci, kinds::rqsc::resource(3), 24, false, 70);
    // RQSC controllers are not offered here: see the note on ResourceID in DESIGN.md 6.5
    obj_h!(q_gas, kinds::sym_gas(), 16, true, 60);

    // raw in-memory form == serialised form for everything that can enter MADT / HEST through as_bytes()
    raw_h!(q_raw_madt_lapic, kinds::madt::lapic(), 16, 20);
    raw_h!(q_raw_madt_ioapic, kinds::madt::ioapic(), 16, 20);
    raw_h!(q_raw_madt_gicc, kinds::madt::gicc(), 96, 100);
    raw_h!(q_raw_madt_gicd, kinds::madt::gicd(), 32, 36);
    raw_h!(q_raw_madt_gicmsi, kinds::madt::gicmsi(true), 32, 36);
    raw_h!(q_raw_madt_gicr, kinds::madt::gicr(), 20, 24);
    raw_h!(q_raw_madt_gicits, kinds::madt::gicits(), 24, 28);
    raw_h!(q_raw_madt_rintc, kinds::madt::rintc(), 40, 44);
    raw_h!(q_raw_madt_imsic, kinds::madt::imsic(), 20, 24);
    raw_h!(q_raw_madt_aplic, kinds::madt::aplic(), 40, 44);
    raw_h!(q_raw_madt_plic, kinds::madt::plic(), 40, 44);
    raw_h!(q_raw_hest_rootport, kinds::hest::root_port(false), 52, 56);
    raw_h!(q_raw_hest_device, kinds::hest::device(false), 48, 52);
    raw_h!(q_raw_hest_bridge, kinds::hest::bridge(true), 60, 64);
    raw_h!(q_raw_hest_ghes, kinds::hest::ghes(), 68, 72);
    raw_h!(q_raw_hest_ghesv2, kinds::hest::ghes_v2(), 96, 100);
    raw_h!(q_raw_hest_notification, kinds::hest::notification(), 32, 36);
    raw_h!(q_raw_srat_rintc, kinds::srat::rintc(true), 24, 28);
    raw_h!(q_raw_pptt_cache, kinds::pptt::cache_node(None), 32, 36);
    raw_h!(q_raw_hmat_prox, kinds::hmat::prox(), 44, 48);
    raw_h!(q_raw_gas, kinds::sym_gas(), 16, 20);
    raw_h!(q_raw_madt_gicmsi_nospi, kinds::madt::gicmsi(false), 32, 36);

    // AML objects (opaque symbolic children of concrete length)
    macro_rules! aml_h {
        ($name:ident, $n:expr, $unw:expr, |$a:ident, $b:ident| $mk:expr) => {
            #[kani::proof]
            #[kani::unwind($unw)]
            pub fn $name() {
                use acpi_tables::aml::*;
                let $a = Blob::<3>::any_len(3);
                let $b = Blob::<3>::any_len(1);
                let _ = (&$a, &$b);
                let o = $mk;
                sinks::<_, $n>(&o, $n <= 12);
            }
        };
    }
    aml_h!(q_aml_name, 16, 70, |a, b| Name::new(sym_path_r::<1>(true).0, &a));
    aml_h!(q_aml_method, 20, 70, |a, b| Method::new(sym_path_r::<1>(false).0, 2, true, vec![&a, &b]));
    aml_h!(q_aml_if, 12, 60, |a, b| If::new(&a, vec![&b]));
    aml_h!(q_aml_package, 12, 60, |a, b| Package::new(vec![&a, &b]));
    aml_h!(q_aml_add, 12, 60, |a, b| Add::new(&a, &b, &a));
    aml_h!(t_aml_field, 24, 70, |a, b| Field::new(sym_path_r::<1>(false).0, FieldAccessType::DWord, FieldLockRule::Lock, FieldUpdateRule::WriteAsOnes,
        vec![FieldEntry::Named(kani::any(), 9), FieldEntry::Reserved(40)]));
    aml_h!(q_aml_template, 32, 80, |a, b| ResourceTemplate::new(vec![&a, &b]));
    aml_h!(q_aml_memory32fixed, 16, 60, |a, b| Memory32Fixed::new(kani::any(), kani::any(), kani::any()));
    aml_h!(q_aml_interrupt, 12, 60, |a, b| Interrupt::new(kani::any(), kani::any(), kani::any(), kani::any(), kani::any()));
    aml_h!(q_aml_word_io, 20, 60, |a, b| AddressSpace::new_io(0x100u16, kani::any::<u16>() | 0x100, None));
    aml_h!(q_aml_mutex_acquire, 12, 60, |a, b| Acquire::new(sym_path_r::<1>(false).0, kani::any()));
    aml_h!(t_aml_device, 24, 70, |a, b| Device::new(sym_path_r::<2>(false).0, vec![&a, &b]));
    aml_h!(t_aml_powerresource, 24, 70, |a, b| PowerResource::new(sym_path_r::<1>(true).0, kani::any(), kani::any(), vec![&a]));
    aml_h!(t_aml_bufferdata, 12, 60, |a, b| BufferData::new(vec![kani::any(), kani::any(), kani::any()]));
    aml_h!(t_aml_opregion, 20, 70, |a, b| OpRegion::new(sym_path_r::<1>(false).0, OpRegionSpace::SystemIO, &a, &b));

    /// whole tables as objects
    #[kani::proof]
    #[kani::unwind(110)]
    pub fn q_table_xsdt() {
        let oem = one_byte_oem();
        let mut t = acpi_tables::xsdt::XSDT::new(oem.0, oem.1, oem.2);
        t.add_entry(kani::any());
        sinks::<_, 48>(&t, false);
    }
    #[kani::proof]
    #[kani::unwind(110)]
    pub fn q_table_bert() {
        let oem = sym_oem();
        let t = acpi_tables::bert::BERT::new(oem.0, oem.1, oem.2, kani::any(), kani::any());
        sinks::<_, 52>(&t, false);
    }
    #[kani::proof]
    #[kani::unwind(110)]
    pub fn q_table_rsdp() {
        let t = acpi_tables::rsdp::Rsdp::new(kani::any(), kani::any());
        sinks::<_, 40>(&t, false);
    }
}
