//! Specification-derived reference encoders, one per table entry kind, paired with a
//! constructor call whose every argument is symbolic. Layout sources: ACPI 6.5 ch. 5 / 18
//! (MADT incl. the RISC-V structures of ACPI 6.6, SRAT incl. RINTC affinity of 6.6, SLIT,
//! HMAT, PPTT, MCFG, XSDT, BERT, HEST), CXL 3.0 9.17 (CEDT), TCG ACPI spec (TCPA/TPM2),
//! SPCR rev 4, RISC-V RHCT / RQSC, VIOT (ACPI 6.5 5.2.33). RIMT follows the crate's golden
//! tests, as the property text allows. Nothing here reads the crate's private constants.
use crate::common::*;

pub type E = Exp<128>;

/// symbolic choice among listed enum variants; returns (variant, its specification value)
#[macro_export]
macro_rules! sym_enum {
    ($($v:expr => $code:expr),+ $(,)?) => {{
        let opts = [$(($v, $code)),+];
        let i: usize = $crate::common::sv();
        let i = if unsafe { $crate::common::FIXED } != 0 { i % opts.len() } else { i };
        kani::assume(i < opts.len());
        opts[i]
    }};
}

pub fn any_dev_fn() -> (u8, u8) {
    let d: u8 = crate::common::sv();
    let f: u8 = crate::common::sv();
    kani::assume(d < 32 && f < 8);
    (d, f)
}

pub fn sym_gas() -> (acpi_tables::gas::GAS, Exp<12>) {
    use acpi_tables::gas::{AccessSize as Z, AddressSpace as A, GAS};
    let (sp, spc) = sym_enum!(
        A::SystemMemory => 0u8, A::SystemIo => 1, A::PciConfigSpace => 2, A::EmbeddedController => 3,
        A::Smbus => 4, A::SystemCmos => 5, A::PciBarTarget => 6, A::Ipmi => 7, A::GeneralPursposeIo => 8,
        A::GenericSerialBus => 9, A::PlatformCommunicationsChannel => 0xa, A::PlatformRuntimeMechanism => 0xb,
        A::FunctionalFixedHardware => 0x7f);
    let (az, azc) = sym_enum!(Z::Undefined => 0u8, Z::ByteAccess => 1, Z::WordAccess => 2, Z::DwordAccess => 3, Z::QwordAccess => 4);
    let w: u8 = crate::common::sv();
    let o: u8 = crate::common::sv();
    let addr: u64 = crate::common::sv();
    let mut e: Exp<12> = Exp::new();
    e.u8(spc).u8(w).u8(o).u8(azc).u64(addr);
    (GAS::new(sp, w, o, az, addr), e)
}

// ------------------------------------------------------------------------------ MADT
pub mod madt {
    use super::*;
    use acpi_tables::madt::*;

    pub fn lapic() -> (ProcessorLocalApic, E) {
        let uid: u8 = crate::common::sv();
        let id: u8 = crate::common::sv();
        let (st, fl) = sym_enum!(EnabledStatus::Disabled => 0u32, EnabledStatus::Enabled => 1, EnabledStatus::DisabledOnlineCapable => 2);
        let mut e = E::new();
        e.u8(0).u8(8).u8(uid).u8(id).u32(fl);
        (ProcessorLocalApic::new(uid, id, st), e)
    }
    pub fn ioapic() -> (IoApic, E) {
        let id: u8 = crate::common::sv();
        let addr: u32 = crate::common::sv();
        let gsi: u32 = crate::common::sv();
        let mut e = E::new();
        e.u8(1).u8(12).u8(id).u8(0).u32(addr).u32(gsi);
        (IoApic::new(id, addr, gsi), e)
    }
    /// GICC with every setter called (all values symbolic)
    pub fn gicc() -> (Gicc, E) {
        let (st, stf) = sym_enum!(EnabledStatus::Disabled => 0u32, EnabledStatus::Enabled => 1, EnabledStatus::DisabledOnlineCapable => 8);
        let cpu_if: u32 = crate::common::sv();
        let uid: u32 = crate::common::sv();
        let park: u32 = crate::common::sv();
        let perf: u32 = crate::common::sv();
        let perf_edge: bool = crate::common::sv();
        let parked: u64 = crate::common::sv();
        let base: u64 = crate::common::sv();
        let gicv: u64 = crate::common::sv();
        let gich: u64 = crate::common::sv();
        let maint: u32 = crate::common::sv();
        let maint_edge: bool = crate::common::sv();
        let gicr: u64 = crate::common::sv();
        let mpidr: u64 = crate::common::sv();
        let eff: u8 = crate::common::sv();
        let spe: u16 = crate::common::sv();
        let trbe: u16 = crate::common::sv();
        let g = Gicc::new(st)
            .cpu_interface_number(cpu_if)
            .acpi_processor_uid(uid)
            .parking_protocol_version(park)
            .performance_interrupt(perf, if perf_edge { Trigger::Edge } else { Trigger::Level })
            .parked_address(parked)
            .base_address(base)
            .virtual_registers(gicv)
            .control_block_registers(gich)
            .maintenance_interrupt(maint, if maint_edge { Trigger::Edge } else { Trigger::Level })
            .redistributor_base(gicr)
            .mpidr(mpidr)
            .power_efficiency_class(eff)
            .overflow_interrupt(spe)
            .trbe_interrupt(trbe);
        let flags = stf | if perf_edge { 2 } else { 0 } | if maint_edge { 4 } else { 0 };
        let mut e = E::new();
        e.u8(0xb).u8(82).u16(0).u32(cpu_if).u32(uid).u32(flags).u32(park).u32(perf);
        e.u64(parked).u64(base).u64(gicv).u64(gich).u32(maint).u64(gicr).u64(mpidr);
        e.u8(eff).u8(0).u16(spe).u16(trbe);
        (g, e)
    }
    pub fn gicd() -> (Gicd, E) {
        let id: u32 = crate::common::sv();
        let base: u64 = crate::common::sv();
        let (v, vc) = sym_enum!(GicVersion::Unspecified => 0u8, GicVersion::GICv1 => 1, GicVersion::GICv2 => 2, GicVersion::GICv3 => 3, GicVersion::GICv4 => 4);
        let mut e = E::new();
        e.u8(0xc).u8(24).u16(0).u32(id).u64(base).u32(0).u8(vc).zeros(3);
        (Gicd::new(id, base, v), e)
    }
    /// GIC MSI frame; `with_spi` concrete (it is an option call)
    pub fn gicmsi(with_spi: bool) -> (GicMsi, E) {
        let id: u32 = crate::common::sv();
        let base: u64 = crate::common::sv();
        let cnt: u16 = crate::common::sv();
        let sb: u16 = crate::common::sv();
        let mut g = GicMsi::new().gic_msi_frame_id(id).base_addr(base);
        if with_spi {
            g = g.spi_count_and_base(cnt, sb);
        }
        let mut e = E::new();
        // flags bit 0 = SPI Count/Base Select: 1 iff the values in this structure override MSI_TYPER
        e.u8(0xd).u8(24).u16(0).u32(id).u64(base).u32(if with_spi { 1 } else { 0 });
        e.u16(if with_spi { cnt } else { 0 }).u16(if with_spi { sb } else { 0 });
        (g, e)
    }
    pub fn gicr() -> (Gicr, E) {
        let base: u64 = crate::common::sv();
        let len: u32 = crate::common::sv();
        let mut e = E::new();
        e.u8(0xe).u8(16).u16(0).u64(base).u32(len);
        (Gicr::new(base, len), e)
    }
    pub fn gicits() -> (GicIts, E) {
        let id: u32 = crate::common::sv();
        let base: u64 = crate::common::sv();
        let mut e = E::new();
        e.u8(0xf).u8(20).u16(0).u32(id).u64(base).u32(0);
        (GicIts::new(id, base), e)
    }
    pub fn rintc() -> (RINTC, E) {
        let (st, fl) = sym_enum!(HartStatus::Disabled => 0u32, HartStatus::Enabled => 1, HartStatus::OnlineCapable => 2);
        let hart: u64 = crate::common::sv();
        let uid: u32 = crate::common::sv();
        let ext: u32 = crate::common::sv();
        let ib: u64 = crate::common::sv();
        let is: u32 = crate::common::sv();
        let mut e = E::new();
        e.u8(0x18).u8(36).u8(1).u8(0).u32(fl).u64(hart).u32(uid).u32(ext).u64(ib).u32(is);
        (RINTC::new(st, hart, uid, ext, ib, is), e)
    }
    pub fn imsic() -> (IMSIC, E) {
        let s: u16 = crate::common::sv();
        let g: u16 = crate::common::sv();
        let gb: u8 = crate::common::sv();
        let hb: u8 = crate::common::sv();
        let grb: u8 = crate::common::sv();
        let gs: u8 = crate::common::sv();
        let mut e = E::new();
        // type, length, version, reserved(1), flags(4, reserved = 0)
        e.u8(0x19).u8(16).u8(1).u8(0).u32(0).u16(s).u16(g).u8(gb).u8(hb).u8(grb).u8(gs);
        (IMSIC::new(s, g, gb, hb, grb, gs), e)
    }
    pub fn aplic() -> (APLIC, E) {
        let id: u8 = crate::common::sv();
        let hw: [u8; 8] = crate::common::sv();
        let idcs: u16 = crate::common::sv();
        let gsi: u32 = crate::common::sv();
        let addr: u64 = crate::common::sv();
        let size: u32 = crate::common::sv();
        let srcs: u16 = crate::common::sv();
        let mut e = E::new();
        e.u8(0x1a).u8(36).u8(1).u8(id).u32(0).bytes(&hw).u16(idcs).u16(srcs).u32(gsi).u64(addr).u32(size);
        (APLIC::new(id, hw, idcs, gsi, addr, size, srcs), e)
    }
    pub fn plic() -> (PLIC, E) {
        let id: u8 = crate::common::sv();
        let hw: [u8; 8] = crate::common::sv();
        let srcs: u16 = crate::common::sv();
        let prio: u16 = crate::common::sv();
        let size: u32 = crate::common::sv();
        let addr: u64 = crate::common::sv();
        let gsi: u32 = crate::common::sv();
        let mut e = E::new();
        e.u8(0x1b).u8(36).u8(1).u8(id).bytes(&hw).u16(srcs).u16(prio).u32(0).u32(size).u64(addr).u32(gsi);
        (PLIC::new(id, hw, srcs, prio, size, addr, gsi), e)
    }
}

// ------------------------------------------------------------------------------ SRAT
pub mod srat {
    use super::*;
    use acpi_tables::srat::*;

    /// flags: three option calls, each made or not (concrete mask so the call list is concrete)
    pub fn mem(mask: u8) -> (MemoryAffinity, E) {
        let pd: u32 = crate::common::sv();
        let base: u64 = crate::common::sv();
        let len: u64 = crate::common::sv();
        let mut m = MemoryAffinity::new(pd, base, len);
        if mask & 1 != 0 {
            m = m.enabled();
        }
        if mask & 2 != 0 {
            m = m.hotpluggable();
        }
        if mask & 4 != 0 {
            m = m.nonvolatile();
        }
        let mut e = E::new();
        e.u8(1).u8(40).u32(pd).u16(0).u32(base as u32).u32((base >> 32) as u32);
        e.u32(len as u32).u32((len >> 32) as u32).u32(0).u32((mask & 7) as u32).u64(0);
        (m, e)
    }
    pub fn gi(pci: bool, mask: u8) -> (GenericInitiator, E) {
        let pd: u32 = crate::common::sv();
        let mut e = E::new();
        e.u8(5).u8(32).u8(0).u8(if pci { 1 } else { 0 }).u32(pd);
        let h = if pci {
            let seg: u16 = crate::common::sv();
            let bus: u8 = crate::common::sv();
            let (d, f) = any_dev_fn();
            e.u16(seg).u8(bus).u8((d << 3) | f).zeros(12);
            Handle::new_pci(seg, bus, d, f)
        } else {
            let hid: [u8; 8] = crate::common::sv();
            let uid: [u8; 4] = crate::common::sv();
            e.bytes(&hid).bytes(&uid).zeros(4);
            Handle::new_acpi(hid, uid)
        };
        let mut g = GenericInitiator::new(pd, h);
        if mask & 1 != 0 {
            g = g.enabled();
        }
        if mask & 2 != 0 {
            g = g.architectural();
        }
        e.u32((mask & 3) as u32).u32(0);
        (g, e)
    }
    /// RINTC affinity (ACPI 6.6 5.2.16.7): type 7, length 20, reserved 2, proximity domain 4,
    /// ACPI processor UID 4, flags 4, clock domain 4.
    pub fn rintc(enabled: bool) -> (RintcAffinity, E) {
        let uid: [u8; 4] = crate::common::sv();
        let clock: u32 = crate::common::sv();
        let pd: u32 = crate::common::sv();
        let mut r = RintcAffinity::new(uid, clock).proximity_domain(pd);
        if enabled {
            r = r.enabled();
        }
        let mut e = E::new();
        e.u8(7).u8(20).u16(0).u32(pd).bytes(&uid).u32(if enabled { 1 } else { 0 }).u32(clock);
        (r, e)
    }
}

// ------------------------------------------------------------------------------ HMAT
pub mod hmat {
    use super::*;
    use acpi_tables::hmat::*;

    pub fn prox() -> (MemoryProximityDomain, E) {
        let i: u32 = crate::common::sv();
        let m: u32 = crate::common::sv();
        let mut e = E::new();
        // flags bit 0: the attached-initiator proximity domain field is valid
        e.u16(0).u16(0).u32(40).u16(1).u16(0).u32(i).u32(m).zeros(20);
        (MemoryProximityDomain::new(i, m), e)
    }
    /// system locality with `ni` x `nt` matrix, every list entry and every cell assigned once
    pub fn loc(ni: usize, nt: usize, opts: u8) -> (SystemLocality, E) {
        let ltc: u8 = crate::common::sv();
        kani::assume(ltc <= 3);
        let (dt, dtc) = sym_enum!(DataType::AccessLatency => 0u8, DataType::ReadLatency => 1, DataType::WriteLatency => 2, DataType::AccessBandwidth => 3, DataType::ReadBandwidth => 4, DataType::WriteBandwidth => 5);
        let (ms, msc) = sym_enum!(MinTransferSize::SizeByteAligned => 0u8, MinTransferSize::Size64b => 1, MinTransferSize::Size128b => 2, MinTransferSize::Size256b => 3,
            MinTransferSize::Size512b => 4, MinTransferSize::Size1k => 5, MinTransferSize::Size2k => 6, MinTransferSize::Size4k => 7, MinTransferSize::Size8k => 8,
            MinTransferSize::Size16k => 9, MinTransferSize::Size32k => 10, MinTransferSize::Size64k => 11);
        let unit: u64 = crate::common::sv();
        let mut s = SystemLocality::new(lt_of(ltc), dt, ms, unit, ni, nt);
        if opts & 1 != 0 {
            s.minimum_transfer_size_required();
        }
        if opts & 2 != 0 {
            s.non_sequential_transfers();
        }
        let mut e = E::new();
        let flags = ltc | if opts & 1 != 0 { 0x10 } else { 0 } | if opts & 2 != 0 { 0x20 } else { 0 };
        e.u16(1).u16(0).u32((32 + 4 * ni + 4 * nt + 2 * ni * nt) as u32);
        e.u8(flags).u8(dtc).u8(msc).u8(0).u32(ni as u32).u32(nt as u32).u32(0).u64(unit);
        let mut i = 0;
        while i < ni {
            let v: u32 = crate::common::sv();
            s.set_initiator_value(i, v);
            e.u32(v);
            i += 1;
        }
        let mut t = 0;
        while t < nt {
            let v: u32 = crate::common::sv();
            s.set_target_value(t, v);
            e.u32(v);
            t += 1;
        }
        // row-major, stride = number of targets
        let mut i = 0;
        while i < ni {
            let mut t = 0;
            while t < nt {
                let v: u16 = crate::common::sv();
                s.set_entry_value(i, t, v);
                e.u16(v);
                t += 1;
            }
            i += 1;
        }
        (s, e)
    }
    fn lt_of(c: u8) -> LocalityType {
        match c {
            0 => LocalityType::Memory,
            1 => LocalityType::FirstLevelCache,
            2 => LocalityType::SecondLevelCache,
            _ => LocalityType::ThirdLevelCache,
        }
    }
    pub fn msc(nh: usize) -> (MemorySideCache, E) {
        let pd: u32 = crate::common::sv();
        let size: u64 = crate::common::sv();
        let tl: u32 = crate::common::sv();
        let cl: u32 = crate::common::sv();
        let asz: u32 = crate::common::sv();
        let wp: u32 = crate::common::sv();
        kani::assume(tl <= 3 && cl <= 3 && asz <= 2 && wp <= 2);
        let line: u16 = crate::common::sv();
        let lv = |c: u32| match c {
            0 => CacheLevel::None,
            1 => CacheLevel::One,
            2 => CacheLevel::Two,
            _ => CacheLevel::Three,
        };
        let a = match asz {
            0 => Associativity::None,
            1 => Associativity::DirectMapped,
            _ => Associativity::Complex,
        };
        let w = match wp {
            0 => WritePolicy::None,
            1 => WritePolicy::Writeback,
            _ => WritePolicy::Writethrough,
        };
        let mut m = MemorySideCache::new(pd, size, lv(tl), lv(cl), a, w, line);
        let mut e = E::new();
        let attrs = tl | (cl << 4) | (asz << 8) | (wp << 12) | ((line as u32) << 16);
        e.u16(2).u16(0).u32((32 + 2 * nh) as u32).u32(pd).u32(0).u64(size).u32(attrs).u16(0).u16(nh as u16);
        let mut i = 0;
        while i < nh {
            let h: u16 = crate::common::sv();
            m.add_smbios_handle(h);
            e.u16(h);
            i += 1;
        }
        (m, e)
    }
}

// ------------------------------------------------------------------------------ PPTT
pub mod pptt {
    use super::*;
    use acpi_tables::pptt::*;

    /// processor node; `parent` and `caches` are handles with the offsets the harness expects
    pub fn proc_node(parent: Option<(&ProcessorHandle, u32)>, caches: &[(&CacheHandle, u32)], mask: u8) -> (ProcessorNode, E) {
        let id: u32 = crate::common::sv();
        let mut p = ProcessorNode::new(parent.map(|x| x.0), id);
        if mask & 1 != 0 {
            p = p.physical();
        }
        if mask & 2 != 0 {
            p = p.valid();
        }
        if mask & 4 != 0 {
            p = p.thread();
        }
        if mask & 8 != 0 {
            p = p.leaf();
        }
        if mask & 16 != 0 {
            p = p.identical();
        }
        let mut e = E::new();
        e.u8(0).u8((20 + 4 * caches.len()) as u8).u16(0).u32((mask & 31) as u32);
        e.u32(parent.map_or(0, |x| x.1)).u32(id).u32(caches.len() as u32);
        let mut i = 0;
        while i < caches.len() {
            p = p.add_cache(caches[i].0);
            e.u32(caches[i].1);
            i += 1;
        }
        (p, e)
    }
    /// cache node with every attribute supplied once
    pub fn cache_node(next: Option<(&CacheHandle, u32)>) -> (CacheNode, E) {
        let size: u32 = crate::common::sv();
        let sets: u32 = crate::common::sv();
        let assoc: u8 = crate::common::sv();
        let line: u16 = crate::common::sv();
        let id: u32 = crate::common::sv();
        let (al, alc) = sym_enum!(AllocationType::Read => 0u8, AllocationType::Write => 1, AllocationType::Both => 2);
        let (ct, ctc) = sym_enum!(CacheType::Data => 0u8, CacheType::Instruction => 1 << 2, CacheType::Unified => 2 << 2);
        let (wp, wpc) = sym_enum!(WritePolicy::Writeback => 0u8, WritePolicy::Writethrough => 1 << 4);
        let mut b = CacheNodeBuilder::default();
        if let Some((h, _)) = next {
            b = b.next_level(h);
        }
        let c = b
            .size(size)
            .sets(sets)
            .associativity(assoc)
            .allocation_type(al)
            .cache_type(ct)
            .write_policy(wp)
            .line_size(line)
            .id(id)
            .to_node();
        let mut e = E::new();
        e.u8(1).u8(28).u16(0).u32(0xff).u32(next.map_or(0, |x| x.1)).u32(size).u32(sets);
        e.u8(assoc).u8(alc | ctc | wpc).u16(line).u32(id);
        (c, e)
    }
}

// ------------------------------------------------------------------------------ RHCT
pub mod rhct {
    use super::*;
    use acpi_tables::rhct::*;

    /// ISA string node for a string of concrete length L (content symbolic ASCII)
    pub fn isa_exp<const L: usize>(bytes: &[u8; L]) -> E {
        let mut e = E::new();
        let strlen = L + 1;
        let total = 8 + strlen + (strlen % 2);
        e.u16(0).u16(total as u16).u16(1).u16(strlen as u16).bytes(bytes).u8(0);
        if strlen % 2 == 1 {
            e.u8(0);
        }
        e
    }
    pub fn cmo() -> (CmoNode, E) {
        let a: u8 = crate::common::sv();
        let b: u8 = crate::common::sv();
        let c: u8 = crate::common::sv();
        let mut e = E::new();
        e.u16(1).u16(10).u16(1).u8(0).u8(a).u8(b).u8(c);
        (CmoNode::new(a, b, c), e)
    }
    pub fn mmu() -> (VirtualAddressScheme, E) {
        let (v, c) = sym_enum!(0u8 => 0u8, 1 => 1, 2 => 2);
        let _ = v;
        let mut e = E::new();
        e.u16(2).u16(8).u16(1).u8(0).u8(c);
        let s = match c {
            0 => VirtualAddressScheme::Sv39,
            1 => VirtualAddressScheme::Sv48,
            _ => VirtualAddressScheme::Sv57,
        };
        (s, e)
    }
    pub fn hart(isa: (&IsaStringHandle, u32), cmos: &[(&CmoHandle, u32)]) -> (HartInfoNode, E) {
        let uid: u32 = crate::common::sv();
        let mut h = HartInfoNode::new(uid, isa.0);
        let n = 1 + cmos.len();
        let mut e = E::new();
        e.u16(0xffff).u16((12 + 4 * n) as u16).u16(1).u16(n as u16).u32(uid).u32(isa.1);
        let mut i = 0;
        while i < cmos.len() {
            h = h.with_cmo(cmos[i].0);
            e.u32(cmos[i].1);
            i += 1;
        }
        (h, e)
    }
}

// ------------------------------------------------------------------------------ VIOT
pub mod viot {
    use super::*;
    use acpi_tables::viot::*;

    fn dev() -> (PciDevice, u16, u16) {
        let seg: u16 = crate::common::sv();
        let bus: u8 = crate::common::sv();
        let (d, f) = any_dev_fn();
        (PciDevice::new(seg, bus, d, f), seg, ((bus as u16) << 8) | ((d as u16) << 3) | f as u16)
    }
    pub fn pci_iommu() -> (VirtIoPciIommu, E) {
        let (d, seg, bdf) = dev();
        let mut e = E::new();
        e.u8(3).u8(0).u16(16).u16(seg).u16(bdf).zeros(8);
        (VirtIoPciIommu::new(d), e)
    }
    pub fn mmio_iommu() -> (VirtIoMmioIommu, E) {
        let base: u64 = crate::common::sv();
        let mut e = E::new();
        e.u8(4).u8(0).u16(16).u32(0).u64(base);
        (VirtIoMmioIommu::new(base), e)
    }
    pub fn pci_range(h: (&TranslationHandle, u16)) -> (PciRange, E) {
        let (a, sa, ba) = dev();
        let (b, sb, bb) = dev();
        let mut e = E::new();
        // endpoint start is derived by the crate from the first BDF (no caller value): pinned as such
        e.u8(1).u8(0).u16(24).u32(ba as u32).u16(sa).u16(sb).u16(ba).u16(bb).u16(h.1).zeros(6);
        (PciRange::new(a, b, h.0), e)
    }
    pub fn mmio_ep(h: (&TranslationHandle, u16)) -> (MmioEndpoint, E) {
        let id: u32 = crate::common::sv();
        let base: u64 = crate::common::sv();
        let mut e = E::new();
        e.u8(2).u8(0).u16(24).u32(id).u64(base).u16(h.1).zeros(6);
        (MmioEndpoint::new(id, base, h.0), e)
    }
}

// ------------------------------------------------------------------------------ RIMT (crate's golden layout)
pub mod rimt {
    use super::*;
    use acpi_tables::rimt::*;

    pub fn wire() -> (InterruptWire, Exp<8>) {
        let num: u32 = crate::common::sv();
        let lvl: bool = crate::common::sv();
        let hi: bool = crate::common::sv();
        let ap: u16 = crate::common::sv();
        let mut e: Exp<8> = Exp::new();
        e.u32(num).u16((lvl as u16) | ((hi as u16) << 1)).u16(ap);
        (InterruptWire::new(num, lvl, hi, ap), e)
    }
    pub fn mapping(dst: (IommuOffset, u32)) -> (IdMapping, Exp<20>) {
        let src: u32 = crate::common::sv();
        let d: u32 = crate::common::sv();
        let n: u32 = crate::common::sv();
        let ats: bool = crate::common::sv();
        let pri: bool = crate::common::sv();
        let rc: bool = crate::common::sv();
        let mut e: Exp<20> = Exp::new();
        e.u32(src).u32(d).u32(n).u32(dst.1).u32((ats as u32) | ((pri as u32) << 1) | ((rc as u32) << 2));
        (IdMapping::new(src, d, n, dst.0, ats, pri, rc), e)
    }
    /// `wires`: None => no wire list, Some(k) => list of k wires. `pci`, `prox`: optional parts.
    pub fn iommu(wires: Option<usize>, pci: bool, prox: bool) -> (Iommu, E) {
        let id: u16 = crate::common::sv();
        let base: u64 = crate::common::sv();
        let has_base: bool = crate::common::sv();
        let mut e = E::new();
        let nw = wires.unwrap_or(0);
        e.u8(0).u8(1).u16((32 + 8 * nw) as u16).u16(id).u16(0).u64(if has_base { base } else { 0 });
        e.u32((pci as u32) | ((prox as u32) << 1));
        let pd = if pci {
            let seg: u16 = crate::common::sv();
            let bus: u8 = crate::common::sv();
            let (d, f) = any_dev_fn();
            e.u16(seg).u16(((bus as u16) << 8) | ((d as u16) << 3) | f as u16);
            Some(PciDevice::new(seg, bus, d, f))
        } else {
            e.u16(0).u16(0);
            None
        };
        let px: u32 = crate::common::sv();
        e.u32(if prox { px } else { 0 }).u16(nw as u16).u16(32);
        let wl = match wires {
            None => None,
            Some(k) => {
                let mut v = Vec::with_capacity(k);
                let mut i = 0;
                while i < k {
                    let (w, we) = wire();
                    v.push(w);
                    e.append(&we);
                    i += 1;
                }
                Some(v)
            }
        };
        (Iommu::new(id, if has_base { Some(base) } else { None }, pd, if prox { Some(px) } else { None }, wl), e)
    }
    fn mappings(e: &mut E, maps: Option<usize>, dst: Option<(IommuOffset, u32)>) -> Option<Vec<IdMapping>> {
        match maps {
            None => None,
            Some(k) => {
                let dst = dst.unwrap();
                let mut v = Vec::with_capacity(k);
                let mut i = 0;
                while i < k {
                    let (m, me) = mapping(dst);
                    v.push(m);
                    e.append(&me);
                    i += 1;
                }
                Some(v)
            }
        }
    }
    pub fn root_complex(maps: Option<usize>, dst: Option<(IommuOffset, u32)>) -> (PcieRootComplex, E) {
        let id: u16 = crate::common::sv();
        let seg: u16 = crate::common::sv();
        let ats: bool = crate::common::sv();
        let pri: bool = crate::common::sv();
        let nm = maps.unwrap_or(0);
        let mut e = E::new();
        e.u8(1).u8(1).u16((16 + 20 * nm) as u16).u16(id).u16(seg).u32((ats as u32) | ((pri as u32) << 1)).u16(16).u16(nm as u16);
        let ml = mappings(&mut e, maps, dst);
        (PcieRootComplex::new(id, seg, ats, pri, ml), e)
    }
    /// platform device with a name of concrete length L (symbolic ASCII content)
    pub fn platform<const L: usize>(maps: Option<usize>, dst: Option<(IommuOffset, u32)>) -> (Platform, E) {
        let id: u16 = crate::common::sv();
        let name: [u8; L] = crate::common::sv();
        let mut i = 0;
        while i < L {
            kani::assume(name[i] < 0x80 && name[i] != 0);
            i += 1;
        }
        let nm = maps.unwrap_or(0);
        let mut e = E::new();
        e.u8(2).u8(1).u16((12 + L + 1 + 20 * nm) as u16).u16(id).u16(0).u16((12 + L + 1) as u16).u16(nm as u16);
        e.bytes(&name).u8(0);
        let ml = mappings(&mut e, maps, dst);
        let s = unsafe { String::from_utf8_unchecked(name.to_vec()) };
        (Platform::new(id, s, ml), e)
    }
}

// ------------------------------------------------------------------------------ CEDT
pub mod cedt {
    use super::*;
    use acpi_tables::cedt::*;

    /// CHBS (CXL 3.0 table 9-21): type 0, reserved 1, record length 2 (= 32), UID 4, CXL version 4,
    /// reserved 4, base 8, length 8 (0x2000 for CXL 1.1 RCRB, 0x10000 for CXL 2.0 component registers)
    pub fn chbs() -> (CxlHostBridge, E) {
        let uid: u32 = crate::common::sv();
        let base: u64 = crate::common::sv();
        let (v, vc) = sym_enum!(CxlVersion::Cxl1_1 => 0u32, CxlVersion::Cxl2 => 1);
        let mut e = E::new();
        e.u8(0).u8(0).u16(32).u32(uid).u32(vc).u32(0).u64(base).u64(if vc == 0 { 0x2000 } else { 0x1_0000 });
        (CxlHostBridge::new(uid, v, base), e)
    }
    pub fn ways_of(code: u8) -> (InterleaveWays, usize) {
        match code {
            0 => (InterleaveWays::Ways1, 1),
            1 => (InterleaveWays::Ways2, 2),
            2 => (InterleaveWays::Ways4, 4),
            3 => (InterleaveWays::Ways8, 8),
            4 => (InterleaveWays::Ways16, 16),
            8 => (InterleaveWays::Ways3, 3),
            9 => (InterleaveWays::Ways6, 6),
            _ => (InterleaveWays::Ways12, 12),
        }
    }
    fn gran() -> (InterleaveGranularity, u8) {
        sym_enum!(InterleaveGranularity::Granularity256b => 0u8, InterleaveGranularity::Granularity512b => 1, InterleaveGranularity::Granularity1kb => 2,
            InterleaveGranularity::Granularity2kb => 3, InterleaveGranularity::Granularity4kb => 4, InterleaveGranularity::Granularity8kb => 5,
            InterleaveGranularity::Granularity16kb => 6)
    }
    /// CFMWS with ways code `wc` (ENIW encoding) and restriction option calls per mask
    pub fn cfmws(wc: u8, mask: u8) -> (CxlFixedMemory, E) {
        let base: u64 = crate::common::sv();
        let size: u64 = crate::common::sv();
        let qtg: u16 = crate::common::sv();
        let (ar, arc) = sym_enum!(InterleaveArithmetic::Modulo => 0u8, InterleaveArithmetic::ModuloXor => 1);
        let (g, gc) = gran();
        let (w, n) = ways_of(wc);
        let mut f = CxlFixedMemory::new(base, size, ar, g, w, qtg);
        if mask & 1 != 0 {
            f = f.cxl_type_2_memory();
        }
        if mask & 2 != 0 {
            f = f.cxl_type_3_memory();
        }
        if mask & 4 != 0 {
            f = f.volatile();
        }
        if mask & 8 != 0 {
            f = f.persistent();
        }
        if mask & 16 != 0 {
            f = f.fixed_configuration();
        }
        let mut e = E::new();
        e.u8(1).u8(0).u16((36 + 4 * n) as u16).u32(0).u64(base).u64(size).u8(wc).u8(arc).u16(0).u32(gc as u32);
        e.u16((mask & 31) as u16).u16(qtg);
        let mut i = 0;
        while i < n {
            let t: [u8; 4] = crate::common::sv();
            f.add_target(t);
            e.bytes(&t);
            i += 1;
        }
        (f, e)
    }
    pub fn cxims(n: usize) -> (XorInterleaveMath, E) {
        let (g, gc) = gran();
        let mut x = XorInterleaveMath::new(g);
        let mut e = E::new();
        e.u8(2).u8(0).u16((8 + 8 * n) as u16).u16(0).u8(gc).u8(n as u8);
        let mut i = 0;
        while i < n {
            let m: u64 = crate::common::sv();
            x.add_xormap(m);
            e.u64(m);
            i += 1;
        }
        (x, e)
    }
    /// RDPAS (CXL 3.0 table 9-24): type 3, reserved 1, record length 2, RCEC segment 2, RCEC BDF 2,
    /// protocol type 1, base address 8. The field list is 17 bytes long (the specification's own
    /// "10h" for the record length contradicts its field offsets); the reference demands that the
    /// record length equal the bytes that follow from the field list, i.e. 17.
    pub fn rdpas() -> (PortAssociation, E) {
        let seg: u16 = crate::common::sv();
        let bus: u8 = crate::common::sv();
        let (d, f) = any_dev_fn();
        let base: u64 = crate::common::sv();
        let (p, pc) = sym_enum!(ProtocolType::CxlIo => 0u8, ProtocolType::CxlMem => 1);
        let mut e = E::new();
        e.u8(3).u8(0).u16(17).u16(seg).u16(((bus as u16) << 8) | ((d as u16) << 3) | f as u16).u8(pc).u64(base);
        (PortAssociation::new(seg, bus, d, f, p, base), e)
    }
}

// ------------------------------------------------------------------------------ HEST
pub mod hest {
    use super::*;
    use acpi_tables::hest::*;

    fn ff() -> (FirmwareFirst, u8) {
        sym_enum!(FirmwareFirst::Disabled => 0u8, FirmwareFirst::Enabled => 1)
    }
    fn dev() -> (PciDevice, u8, u8, u8) {
        let bus: u8 = crate::common::sv();
        let (d, f) = any_dev_fn();
        (PciDevice::new(bus, d, f), bus, d, f)
    }
    /// common AER prefix (ACPI 6.5 tables 18.7-18.9): type, source id, reserved, flags, enabled,
    /// records, sections, bus, device, function, device control, reserved, masks...
    fn aer_prefix(e: &mut E, ty: u16, global: bool, flags: u8, b: u8, d: u8, f: u8, v: &[u32; 6], dc: u16) {
        e.u16(ty).u16(0).u16(0).u8(if global { 2 } else { flags }).u8(0).u32(v[0]).u32(v[1]);
        e.u32(if global { 0 } else { b as u32 }).u16(if global { 0 } else { d as u16 }).u16(if global { 0 } else { f as u16 });
        e.u16(dc).u16(0).u32(v[2]).u32(v[3]).u32(v[4]).u32(v[5]);
    }
    pub fn root_port(global: bool) -> (PcieAerRootPort, E) {
        let (fw, fc) = ff();
        let (pd, b, d, f) = dev();
        let v: [u32; 6] = crate::common::sv();
        let dc: u16 = crate::common::sv();
        let rec: u32 = crate::common::sv();
        let s = if global { PcieAerRootPort::new_global() } else { PcieAerRootPort::new_root_port(fw, pd) };
        let s = s
            .num_records(v[0])
            .max_sections(v[1])
            .device_control(dc)
            .uncorrectable_error_mask(v[2])
            .uncorrectable_error_severity(v[3])
            .correctable_error_mask(v[4])
            .aer_cap_ctrl(v[5])
            .root_error_command(rec);
        let mut e = E::new();
        aer_prefix(&mut e, 6, global, fc, b, d, f, &v, dc);
        e.u32(rec);
        (s, e)
    }
    pub fn device(global: bool) -> (PcieAerDevice, E) {
        let (fw, fc) = ff();
        let (pd, b, d, f) = dev();
        let v: [u32; 6] = crate::common::sv();
        let dc: u16 = crate::common::sv();
        let s = if global { PcieAerDevice::new_global() } else { PcieAerDevice::new_root_port(fw, pd) };
        let s = s
            .num_records(v[0])
            .max_sections(v[1])
            .device_control(dc)
            .uncorrectable_error_mask(v[2])
            .uncorrectable_error_severity(v[3])
            .correctable_error_mask(v[4])
            .aer_cap_ctrl(v[5]);
        let mut e = E::new();
        aer_prefix(&mut e, 7, global, fc, b, d, f, &v, dc);
        (s, e)
    }
    pub fn bridge(global: bool) -> (PcieAerBridge, E) {
        let (fw, fc) = ff();
        let (pd, b, d, f) = dev();
        let v: [u32; 6] = crate::common::sv();
        let w: [u32; 3] = crate::common::sv();
        let dc: u16 = crate::common::sv();
        let s = if global { PcieAerBridge::new_global() } else { PcieAerBridge::new_bridge(fw, pd) };
        let s = s
            .num_records(v[0])
            .max_sections(v[1])
            .device_control(dc)
            .uncorrectable_error_mask(v[2])
            .uncorrectable_error_severity(v[3])
            .correctable_error_mask(v[4])
            .aer_cap_ctrl(v[5])
            .secondary_uncorrectable_error_mask(w[0])
            .secondary_uncorrectable_error_severity(w[1])
            .secondary_aer_cap_ctrl(w[2]);
        let mut e = E::new();
        aer_prefix(&mut e, 8, global, fc, b, d, f, &v, dc);
        e.u32(w[0]).u32(w[1]).u32(w[2]);
        (s, e)
    }
    pub fn notification() -> (NotificationStructure, Exp<28>) {
        use NotificationType as N;
        let (t, tc) = sym_enum!(N::Polled => 0u8, N::ExternalIrq => 1, N::LocalIrq => 2, N::Sci => 3, N::Nmi => 4, N::Cmci => 5, N::Mce => 6,
            N::GpioSignal => 7, N::Armv8Sea => 8, N::Armv8Sei => 9, N::ExternalGsiv => 10, N::SoftwareException => 11,
            N::RiscvSupervisorSoftwareEvent => 12, N::RiscvLowPriorityRasInterrupt => 13, N::RiscvHighPriorityRasInterrupt => 14,
            N::RiscvHardwareErrorException => 15);
        let cw: u16 = crate::common::sv();
        let v: [u32; 6] = crate::common::sv();
        let n = NotificationStructure::new(t)
            .conf_write_en(cw)
            .poll_interval_ms(v[0])
            .vector(v[1])
            .polling_threshold_value(v[2])
            .polling_threshold_window_ms(v[3])
            .error_threshold_value(v[4])
            .error_threshold_window_ms(v[5]);
        let mut e: Exp<28> = Exp::new();
        e.u8(tc).u8(28).u16(cw).u32(v[0]).u32(v[1]).u32(v[2]).u32(v[3]).u32(v[4]).u32(v[5]);
        (n, e)
    }
    fn ghes_prefix(e: &mut E, ty: u16, sid: u16, en: u8, v: &[u32; 4], g: &Exp<12>, n: &Exp<28>) {
        e.u16(ty).u16(sid).u16(0xffff).u8(0).u8(en).u32(v[0]).u32(v[1]).u32(v[2]);
        e.append(g).append(n).u32(v[3]);
    }
    pub fn ghes() -> (GenericHardwareSource, E) {
        let sid: u16 = crate::common::sv();
        let (en, enc) = sym_enum!(EnabledStatus::Disabled => 0u8, EnabledStatus::Enabled => 1);
        let v: [u32; 4] = crate::common::sv();
        let (g, ge) = sym_gas();
        let (n, ne) = notification();
        let s = GenericHardwareSource::new(sid, en)
            .num_records(v[0])
            .max_sections(v[1])
            .max_raw_length(v[2])
            .error_status_address(g)
            .notification(n)
            .error_status_block_len(v[3]);
        let mut e = E::new();
        ghes_prefix(&mut e, 9, sid, enc, &v, &ge, &ne);
        (s, e)
    }
    pub fn ghes_v2() -> (GenericHardwareSourceV2, E) {
        let sid: u16 = crate::common::sv();
        let (en, enc) = sym_enum!(EnabledStatus::Disabled => 0u8, EnabledStatus::Enabled => 1);
        let v: [u32; 4] = crate::common::sv();
        let (g, ge) = sym_gas();
        let (n, ne) = notification();
        let (a, ae) = sym_gas();
        let pres: u64 = crate::common::sv();
        let wr: u64 = crate::common::sv();
        let s = GenericHardwareSourceV2::new(sid, en)
            .num_records(v[0])
            .max_sections(v[1])
            .max_raw_length(v[2])
            .error_status_address(g)
            .notification(n)
            .error_status_block_len(v[3])
            .read_ack_register(a)
            .read_ack_preserve(pres)
            .read_ack_write(wr);
        let mut e = E::new();
        ghes_prefix(&mut e, 10, sid, enc, &v, &ge, &ne);
        e.append(&ae).u64(pres).u64(wr);
        (s, e)
    }
}

// ------------------------------------------------------------------------------ RQSC
pub mod rqsc {
    use super::*;
    use acpi_tables::rqsc::*;

    /// resource-ID kinds: 0 cache, 1 memory affinity, 2 ACPI device, 3 PCI device, 4 vendor (2 bytes)
    pub fn resource(kind: u8) -> (ResourceStructure, Exp<32>) {
        let (rt, rtc) = sym_enum!(ResourceType::Cache => 0u8, ResourceType::Memory => 1);
        let flags: u16 = crate::common::sv();
        let mut id: Exp<24> = Exp::new();
        let rid = match kind {
            0 => {
                let c: u32 = crate::common::sv();
                id.u8(0).u32(c).u32(0).u32(0);
                ResourceID::Cache(CacheResource::new(c))
            }
            1 => {
                let pd: u32 = crate::common::sv();
                let bw: u64 = crate::common::sv();
                id.u8(1).u32(pd).u32(0).u32(0).u64(bw);
                ResourceID::MemoryAffinityStructure(MemoryAffinityStructureResource::new(pd, bw))
            }
            2 => {
                let hid: u64 = crate::common::sv();
                let uid: u32 = crate::common::sv();
                id.u8(2).u64(hid).u32(uid);
                ResourceID::ACPIDevice(ACPIDeviceResource::new(hid, uid))
            }
            3 => {
                let bdf: u32 = crate::common::sv();
                id.u8(3).u32(bdf).u32(0).u32(0);
                ResourceID::PCIDevice(PCIDeviceResource::new(bdf))
            }
            _ => {
                let t: u8 = crate::common::sv();
                let d: [u8; 2] = crate::common::sv();
                id.u8(t).bytes(&d);
                ResourceID::VendorSpecific(t, d.to_vec())
            }
        };
        let mut e: Exp<32> = Exp::new();
        e.u8(rtc).u8(0).u16((7 + id.n) as u16).u16(flags).u8(0).append(&id);
        (ResourceStructure::new(rt, flags, rid), e)
    }
    pub fn controller(res_kinds: &[u8]) -> (QoSController, E) {
        let (ct, ctc) = sym_enum!(0u8 => 0u8, 1 => 1);
        let _ = ct;
        let (g, ge) = sym_gas();
        let rc: u32 = crate::common::sv();
        let mc: u32 = crate::common::sv();
        let fl: u16 = crate::common::sv();
        let mut q = QoSController::new(if ctc == 0 { ControllerType::Capacity } else { ControllerType::Bandwidth }, g, rc, mc, fl);
        let mut body: Exp<96> = Exp::new();
        let mut i = 0;
        while i < res_kinds.len() {
            let (r, re) = resource(res_kinds[i]);
            q.add_resource(r);
            body.append(&re);
            i += 1;
        }
        let mut e = E::new();
        e.u8(ctc).u8(0).u16((28 + body.n) as u16).append(&ge).u32(rc).u32(mc).u16(fl).u16(res_kinds.len() as u16).append(&body);
        (q, e)
    }
}
