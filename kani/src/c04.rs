//! C04 — see DESIGN.md section 3. Harness bodies live in tables.rs / fixed.rs; the sequence
//! lists are shared between C01..C04 and select their property through the const `P`.
pub mod c04 {
    pub const P: u8 = 4;
    pub mod var {
        use super::P;
        include!("seqs_var.in");
    }
    // Concrete twins (DESIGN 6.7 round 3, 6.8): identical all-zero / all-one entries, whole image
    // compared with the reference encoding -- value-dependent merging/skipping of entries.
    pub mod fx {
        use super::P;
        use crate::tables::*;
        include!("seqs_fx.in");
    }
    pub mod fixed_tables {
        use super::P;
        include!("seqs_fixed.in");
    }
}
