//! C16 — EISA identifiers and UUIDs are encoded per the ACPI compression rules.
use crate::common::*;
use acpi_tables::aml::*;
use acpi_tables::Aml;

pub mod c16 {
    use super::*;

    fn hexval(c: u8) -> u8 {
        if c >= b'0' && c <= b'9' {
            c - b'0'
        } else {
            c - b'A' + 10
        }
    }
    fn is_hex_upper(c: u8) -> bool {
        (c >= b'0' && c <= b'9') || (c >= b'A' && c <= b'F')
    }

    /// all 26^3 * 16^4 valid identifiers in one query
    #[kani::proof]
    #[kani::unwind(12)]
    pub fn q_eisa_all_valid() {
        let id: [u8; 7] = kani::any();
        kani::assume(id[0] >= b'A' && id[0] <= b'Z' && id[1] >= b'A' && id[1] <= b'Z' && id[2] >= b'A' && id[2] <= b'Z');
        kani::assume(is_hex_upper(id[3]) && is_hex_upper(id[4]) && is_hex_upper(id[5]) && is_hex_upper(id[6]));
        let s = unsafe { core::str::from_utf8_unchecked(&id) };
        let r: Rec<10> = Rec::of(&EISAName::new(s));
        // emitted as an integer constant of whatever width C08 assigns
        let (v, n, ok) = decode_int(&r.buf, 0);
        let mut e: Exp<10> = Exp::new();
        ref_int(&mut e, v);
        // EISAID (ACPI 6.5 19.3.4 / 19.6.37): bytes as stored in memory b0..b3:
        // b0 = 0 c1(5) c2[4:3]; b1 = c2[2:0] c3(5); b2 = hex1 hex2; b3 = hex3 hex4, letters compressed as c - 0x40
        let val = v as u32;
        let b = val.to_le_bytes();
        let c1 = ((b[0] >> 2) & 0x1f) + 0x40;
        let c2 = (((b[0] & 0x3) << 3) | (b[1] >> 5)) + 0x40;
        let c3 = (b[1] & 0x1f) + 0x40;
        let h = [b[2] >> 4, b[2] & 0xf, b[3] >> 4, b[3] & 0xf];
        verdicts! {
            "C16: EISA id is emitted as one integer constant in its narrowest form": ok && n == r.len && v <= u32::MAX as u64 && r.eq_bytes(&e.b, e.n),
            "C16: bit 31 of the compressed id (first stored byte, top bit) is zero": b[0] & 0x80 == 0,
            "C16: decompressing the emitted value returns the three letters": c1 == id[0] && c2 == id[1] && c3 == id[2],
            "C16: decompressing the emitted value returns the four hex digits": h[0] == hexval(id[3]) && h[1] == hexval(id[4]) && h[2] == hexval(id[5]) && h[3] == hexval(id[6]),
        }
        kani::cover!(true, "REACHED");
    }

    /// wrong length (concrete lengths 0..=6, 8) must be refused
    macro_rules! eisa_len_refuse {
        ($name:ident, $str:expr) => {
            #[kani::proof]
            #[kani::unwind(12)]
            pub fn $name() {
                kani::cover!(true, "CALLING");
                let r: Rec<10> = Rec::of(&EISAName::new($str));
                assert!(r.len > 100, "C16: an EISA id string of the wrong length was accepted");
            }
        };
    }
    eisa_len_refuse!(q_eisa_refuse_len0, "");
    eisa_len_refuse!(q_eisa_refuse_len3, "PNP");
    eisa_len_refuse!(q_eisa_refuse_len6, "PNP0A0");
    eisa_len_refuse!(q_eisa_refuse_len8, "PNP0A033");

    /// a non-hex character in a digit position must be refused (symbolic over every non-hex ASCII byte)
    macro_rules! eisa_digit_refuse {
        ($name:ident, $pos:expr) => {
            #[kani::proof]
            #[kani::unwind(12)]
            pub fn $name() {
                let mut id: [u8; 7] = *b"PNP0A03";
                let c: u8 = kani::any();
                kani::assume(c < 0x80 && !((c >= b'0' && c <= b'9') || (c >= b'A' && c <= b'F') || (c >= b'a' && c <= b'f')));
                id[$pos] = c;
                let s = unsafe { core::str::from_utf8_unchecked(&id) };
                kani::cover!(true, "CALLING");
                let r: Rec<10> = Rec::of(&EISAName::new(s));
                assert!(r.len > 100, "C16: an EISA id with a non-hex digit was accepted");
            }
        };
    }
    eisa_digit_refuse!(q_eisa_refuse_digit3, 3);
    eisa_digit_refuse!(q_eisa_refuse_digit4, 4);
    eisa_digit_refuse!(q_eisa_refuse_digit5, 5);
    eisa_digit_refuse!(q_eisa_refuse_digit6, 6);

    /// UUID mapping half: every pair of hex digits in either letter case maps to 16*v1+v2
    #[kani::proof]
    #[kani::unwind(4)]
    pub fn q_hex2byte_valid() {
        let a: u8 = kani::any();
        let b: u8 = kani::any();
        let hv = |c: u8| -> Option<u8> {
            if c >= b'0' && c <= b'9' {
                Some(c - b'0')
            } else if c >= b'A' && c <= b'F' {
                Some(c - b'A' + 10)
            } else if c >= b'a' && c <= b'f' {
                Some(c - b'a' + 10)
            } else {
                None
            }
        };
        kani::assume(hv(a).is_some() && hv(b).is_some());
        let got = verif_hex2byte(a as char, b as char);
        assert!(got == 16 * hv(a).unwrap() + hv(b).unwrap(), "C16: hex digit pair maps to 16*hi+lo in either letter case");
        kani::cover!(true, "REACHED");
    }

    #[kani::proof]
    #[kani::unwind(4)]
    pub fn q_hex2byte_refuse() {
        let a: u8 = kani::any();
        let b: u8 = kani::any();
        let ishex = |c: u8| (c >= b'0' && c <= b'9') || (c >= b'A' && c <= b'F') || (c >= b'a' && c <= b'f');
        kani::assume(a < 0x80 && b < 0x80 && !(ishex(a) && ishex(b)));
        kani::cover!(true, "CALLING");
        let got = verif_hex2byte(a as char, b as char);
        assert!(got == 0 && false, "C16: a non-hex digit was accepted");
    }

    /// UUID placement half: concrete strings whose 16 bytes are pairwise distinct fix the ToUUID order
    macro_rules! uuid_ok {
        ($name:ident, $str:expr, $bytes:expr) => {
            #[kani::proof]
            #[kani::unwind(48)]
            pub fn $name() {
                let r: Rec<24> = Rec::of(&Uuid::new($str));
                // Buffer(16): 11 PkgLength(0x13) 0A 10 <16 bytes>
                let mut e: Exp<24> = Exp::new();
                e.u8(0x11).u8(0x13).u8(0x0a).u8(0x10).bytes(&$bytes);
                assert!(r.eq_bytes(&e.b, e.n), "C16: UUID is a 16-byte buffer in ToUUID mixed-endian order");
                kani::cover!(true, "REACHED");
            }
        };
    }
    // aabbccdd-eeff-gghh-iijj-kkllmmnnoopp -> dd cc bb aa ff ee hh gg ii jj kk ll mm nn oo pp
    uuid_ok!(q_uuid_lower, "01234567-89ab-cdef-fedc-ba9876543210",
        [0x67u8, 0x45, 0x23, 0x01, 0xab, 0x89, 0xef, 0xcd, 0xfe, 0xdc, 0xba, 0x98, 0x76, 0x54, 0x32, 0x10]);
    uuid_ok!(q_uuid_upper, "A1B2C3D4-E5F6-0718-293A-4B5C6D7E8F90",
        [0xd4u8, 0xc3, 0xb2, 0xa1, 0xf6, 0xe5, 0x18, 0x07, 0x29, 0x3a, 0x4b, 0x5c, 0x6d, 0x7e, 0x8f, 0x90]);
    uuid_ok!(t_uuid_mixed, "aAbBcCdD-eEfF-1122-3344-556677889900",
        [0xddu8, 0xcc, 0xbb, 0xaa, 0xff, 0xee, 0x22, 0x11, 0x33, 0x44, 0x55, 0x66, 0x77, 0x88, 0x99, 0x00]);

    macro_rules! uuid_refuse {
        ($name:ident, $str:expr) => {
            #[kani::proof]
            #[kani::unwind(48)]
            pub fn $name() {
                kani::cover!(true, "CALLING");
                let r: Rec<24> = Rec::of(&Uuid::new($str));
                assert!(r.len > 100, "C16: a malformed UUID string was accepted");
            }
        };
    }
    uuid_refuse!(q_uuid_refuse_len35, "01234567-89ab-cdef-fedc-ba987654321");
    uuid_refuse!(q_uuid_refuse_len37, "01234567-89ab-cdef-fedc-ba98765432100");
    uuid_refuse!(q_uuid_refuse_hyphen1_missing, "012345678-9ab-cdef-fedc-ba9876543210");
    uuid_refuse!(q_uuid_refuse_hyphen2_replaced, "01234567-89ab_cdef-fedc-ba9876543210");
    uuid_refuse!(q_uuid_refuse_hyphen3_moved, "01234567-89ab-cde-ffedc-ba9876543210");
    uuid_refuse!(q_uuid_refuse_hyphen4_replaced, "01234567-89ab-cdef-fedc0ba9876543210");
    uuid_refuse!(q_uuid_refuse_nonhex_first, "g1234567-89ab-cdef-fedc-ba9876543210");
    uuid_refuse!(q_uuid_refuse_nonhex_mid, "01234567-89ab-cdxf-fedc-ba9876543210");
    uuid_refuse!(q_uuid_refuse_nonhex_last, "01234567-89ab-cdef-fedc-ba987654321z");
    // a sign character where a group starts (accepted by integer parsers such as from_str_radix)
    uuid_refuse!(q_uuid_refuse_plus_group1, "+1234567-89ab-cdef-fedc-ba9876543210");
    uuid_refuse!(q_uuid_refuse_plus_group2, "01234567-+9ab-cdef-fedc-ba9876543210");
    uuid_refuse!(q_uuid_refuse_plus_group3, "01234567-89ab-+def-fedc-ba9876543210");
    uuid_refuse!(q_uuid_refuse_plus_group4, "01234567-89ab-cdef-+edc-ba9876543210");
    uuid_refuse!(q_uuid_refuse_plus_group5, "01234567-89ab-cdef-fedc-+a9876543210");
    uuid_refuse!(t_uuid_refuse_minus_group1, "-1234567-89ab-cdef-fedc-ba9876543210");
    uuid_refuse!(t_uuid_refuse_space_group2, "01234567- 9ab-cdef-fedc-ba9876543210");
    uuid_refuse!(t_uuid_refuse_0x_group3, "01234567-89ab-0xef-fedc-ba9876543210");
    uuid_refuse!(t_uuid_refuse_nonhex_g2, "01234567-8-ab-cdef-fedc-ba9876543210");
    uuid_refuse!(t_uuid_refuse_nonhex_g4, "01234567-89ab-cdef-fe c-ba9876543210");
    uuid_refuse!(t_uuid_refuse_nonhex_g5, "01234567-89ab-cdef-fedc-ba98765#3210");
    uuid_refuse!(t_uuid_refuse_empty, "");
}
