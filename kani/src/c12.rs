//! C12 — locality matrices hold, per cell, the last value assigned to that cell.
use crate::common::*;
use acpi_tables::Aml;

pub mod c12 {
    use super::*;

    /// SLIT with n localities, k assignments with symbolic (a, b, value), a and b in range
    fn slit<const NN: usize>(n: usize, k: usize) {
        let oem = one_byte_oem();
        let mut t = acpi_tables::slit::SLIT::new(oem.0, oem.1, oem.2, n as u32);
        let mut model = [10u8; NN];
        let mut step = 0;
        while step < k {
            let a: usize = kani::any();
            let b: usize = kani::any();
            let v: u8 = kani::any();
            kani::assume(a < n && b < n);
            t.set_distance(a, b, v);
            model[a + n * b] = v;
            model[b + n * a] = v;
            step += 1;
        }
        let r: Rec<64> = Rec::of(&t);
        let mut cells_ok = r.len == 44 + n * n;
        let mut i = 0;
        while i < NN {
            if r.buf[44 + i] != model[i] {
                cells_ok = false;
            }
            i += 1;
        }
        verdicts! {
            "C12: SLIT cell (a,b) and its mirror hold the last distance assigned to the pair, 10 if never assigned": cells_ok,
            "C12: SLIT locality count field equals n": r.u64(36) == n as u64,
            "C12: SLIT Length equals bytes emitted": r.u32(4) as usize == r.len,
            "C12: SLIT checksum stays valid": r.buf[9].wrapping_add(r.sum_skip9()) == 0,
        }
        kani::cover!(true, "REACHED");
    }
    macro_rules! slit_h {
        ($name:ident, $n:expr, $nn:expr, $k:expr) => {
            #[kani::proof]
            #[kani::unwind(70)]
            pub fn $name() {
                slit::<$nn>($n, $k);
            }
        };
    }
    slit_h!(q_slit_n1_k1, 1, 1, 1);
    slit_h!(q_slit_n2_k1, 2, 4, 1);
    slit_h!(q_slit_n2_k2, 2, 4, 2);
    slit_h!(q_slit_n3_k1, 3, 9, 1);
    slit_h!(q_slit_n3_k2, 3, 9, 2);
    slit_h!(t_slit_n4_k2, 4, 16, 2);
    // three symbolic assignments at n >= 3 (t_slit_n3_k3, t_slit_n4_k3) were tried in the thorough
    // tier and removed: neither back end returned a verdict within 2400 s (cadical) / 4800 s (z3).
    slit_h!(q_slit_n0, 0, 0, 0);

    /// HMAT latency/bandwidth structure with ni x nt cells, k assignments with symbolic (i, j, value)
    fn hmat<const CELLS: usize>(ni: usize, nt: usize, k: usize) {
        use acpi_tables::hmat::*;
        let unit: u64 = kani::any();
        let mut s = SystemLocality::new(LocalityType::Memory, DataType::AccessBandwidth, MinTransferSize::Size64b, unit, ni, nt);
        let mut model = [0xffffu16; CELLS];
        let mut step = 0;
        while step < k {
            let i: usize = kani::any();
            let j: usize = kani::any();
            let v: u16 = kani::any();
            kani::assume(i < ni && j < nt);
            s.set_entry_value(i, j, v);
            model[i * nt + j] = v;
            step += 1;
        }
        let iv: u32 = kani::any();
        let tv: u32 = kani::any();
        let ii: usize = kani::any();
        let ti: usize = kani::any();
        kani::assume(ii < ni && ti < nt);
        s.set_initiator_value(ii, iv);
        s.set_target_value(ti, tv);
        let r: Rec<80> = Rec::of(&s);
        let base = 32 + 4 * ni + 4 * nt;
        let mut cells_ok = r.len == base + 2 * CELLS && r.fits();
        let mut c = 0;
        while c < CELLS {
            if r.u16(base + 2 * c) != model[c] {
                cells_ok = false;
            }
            c += 1;
        }
        let mut lists_ok = true;
        let mut q = 0;
        while q < 3 {
            if q < ni && r.u32(32 + 4 * q) != (if q == ii { iv } else { 0 }) {
                lists_ok = false;
            }
            if q < nt && r.u32(32 + 4 * ni + 4 * q) != (if q == ti { tv } else { 0 }) {
                lists_ok = false;
            }
            q += 1;
        }
        // the structure inside a table: checksum and length stay valid
        let oem = one_byte_oem();
        let mut t = HMAT::new(oem.0, oem.1, oem.2);
        t.add_system_locality(s);
        let rt: Rec<128> = Rec::of(&t);
        verdicts! {
            "C12: HMAT cell (i,j) at row-major index i*targets+j holds the last value assigned, 0xFFFF if never assigned": cells_ok,
            "C12: HMAT initiator/target list setters write their own slot only": lists_ok,
            "C12: HMAT structure length and counts describe the matrix": r.u32(4) as usize == r.len && r.u32(12) as usize == ni && r.u32(16) as usize == nt,
            "C12: HMAT table checksum and length stay valid": rt.fits() && rt.u32(4) as usize == rt.len && rt.buf[9].wrapping_add(rt.sum_skip9()) == 0,
        }
        kani::cover!(true, "REACHED");
    }
    macro_rules! hmat_h {
        ($name:ident, $ni:expr, $nt:expr, $k:expr) => {
            #[kani::proof]
            #[kani::unwind(140)]
            #[kani::solver(z3)]
            pub fn $name() {
                hmat::<{ $ni * $nt }>($ni, $nt, $k);
            }
        };
    }
    hmat_h!(q_hmat_1x1_k1, 1, 1, 1);
    hmat_h!(q_hmat_1x3_k2, 1, 3, 2);
    hmat_h!(q_hmat_3x1_k2, 3, 1, 2);
    hmat_h!(q_hmat_2x3_k1, 2, 3, 1);
    hmat_h!(t_hmat_2x3_k2, 2, 3, 2);
    hmat_h!(q_hmat_3x2_k1, 3, 2, 1);
    hmat_h!(q_hmat_2x2_k1, 2, 2, 1);
    hmat_h!(t_hmat_2x2_k2, 2, 2, 2);
    hmat_h!(t_hmat_3x3_k3, 3, 3, 3);
    hmat_h!(t_hmat_3x2_k3, 3, 2, 3);
    hmat_h!(t_hmat_1x2_k3, 1, 2, 3);
    hmat_h!(t_hmat_2x1_k3, 2, 1, 3);
}
