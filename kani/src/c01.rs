//! C01 — see DESIGN.md section 3. Harness bodies live in tables.rs / fixed.rs; the sequence
//! lists are shared between C01..C04 and select their property through the const `P`.
pub mod c01 {
    pub const P: u8 = 1;
    pub mod var {
        use super::P;
        include!("seqs_var.in");
    }
    pub mod carries {
        use super::P;
        include!("seqs_len.in");
    }
    pub mod fixed_tables {
        use super::P;
        include!("seqs_fixed.in");
    }
}
