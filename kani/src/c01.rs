//! C01 — see DESIGN.md section 3. Harness bodies live in tables.rs / fixed.rs; the sequence
//! lists are shared between C01..C04 and select their property through the const `P`.
pub mod c01 {
    pub const P: u8 = 1;
    pub mod var {
        use super::P;
        include!("seqs_var.in");
    }
    pub mod carries {
        use super::P;
        include!("seqs_len.in");
    }
    pub mod fixed_tables {
        use super::P;
        include!("seqs_fixed.in");
    }
    /// the generic table's write operations under C01's own verdict (C13 has the full model)
    pub mod sdt_writes {
        use super::P;
        use crate::fixed;
        macro_rules! fx {
            ($name:ident, $unw:expr, $call:expr) => {
                #[kani::proof]
                #[kani::unwind($unw)]
                pub fn $name() {
                    $call;
                }
            };
        }
        fx!(q_sdt_write_u8, 60, fixed::sdt_write::<P>(0));
        fx!(q_sdt_write_u16, 60, fixed::sdt_write::<P>(1));
        fx!(q_sdt_write_u32, 60, fixed::sdt_write::<P>(2));
        fx!(q_sdt_write_u64, 60, fixed::sdt_write::<P>(3));
        fx!(q_sdt_write_slice3, 60, fixed::sdt_write::<P>(4));
    }
}
