//! C05 — handles returned by add operations are true offsets of the node they name.
//! Handle types are opaque; a handle is observed the way a consumer observes it: through the
//! reference field of a later node built from it (tables.rs records every such field in `TB::refs`).
pub mod c05 {
    pub const P: u8 = 5;
    pub mod handles {
        use super::P;
        use crate::seq;
        include!("seqs_handles.in");
    }
}
