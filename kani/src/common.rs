//! Harness-side observers and helpers. Nothing here comes from the crate under
//! test except the two traits `Aml` / `AmlSink`.

use acpi_tables::{Aml, AmlSink};

/// Independent non-masking verdicts: every condition is evaluated first, then one
/// of them (nondeterministically chosen) is asserted, so a failure of an earlier
/// label never hides a failure of a later one (Kani's assert also assumes).
#[macro_export]
macro_rules! verdicts {
    ($( $msg:literal : $cond:expr ),+ $(,)?) => {{
        let conds = [$($cond),+];
        let which: usize = kani::any();
        let mut i = 0usize;
        $(
            if which == i { assert!(conds[i], $msg); }
            i += 1;
        )+
        let _ = i;
    }};
}

/// Fixed-array recorder implementing ONLY the mandatory `byte` method.
pub struct Rec<const N: usize> {
    pub buf: [u8; N],
    pub len: usize,
}

impl<const N: usize> AmlSink for Rec<N> {
    fn byte(&mut self, byte: u8) {
        if self.len < N {
            self.buf[self.len] = byte;
        }
        self.len += 1;
    }
}

impl<const N: usize> Rec<N> {
    pub fn new() -> Self {
        Rec { buf: [0u8; N], len: 0 }
    }
    pub fn of(a: &dyn Aml) -> Self {
        let mut r = Self::new();
        a.to_aml_bytes(&mut r);
        r
    }
    /// true iff the recorder was large enough (harness sanity, not a property)
    pub fn fits(&self) -> bool {
        self.len <= N
    }
    pub fn sum(&self) -> u8 {
        let mut s = 0u8;
        let mut i = 0;
        while i < N {
            if i < self.len {
                s = s.wrapping_add(self.buf[i]);
            }
            i += 1;
        }
        s
    }
    /// Sum of all emitted bytes except index 9 (the checksum byte), i.e. the value the checksum byte
    /// must negate. Mathematically the plain byte sum; *computed* in the association order a
    /// delta-maintained table uses, purely so that a SAT back end sees syntactically similar adder
    /// chains: the header region is folded with the length field replaced by the initial length
    /// `first`, then per entry (cut points = expected entry offsets) the length delta is applied and the
    /// entry is either folded on (`running`) or summed from zero and added; finally the difference
    /// between the expected and the actual length bytes is added back, so the result is exact whatever
    /// the image contains. Cut points only affect solver effort, never the value.
    pub fn sum_skip9_mirror(&self, cuts: &[usize], ncuts: usize, first: usize, running: bool) -> u8 {
        let end = if self.len < N { self.len } else { N };
        let l0 = (first as u32).to_le_bytes();
        let mut t = 0u8;
        let mut i = 0;
        let hdr_end = if ncuts > 0 && cuts[0] < end { cuts[0] } else { end };
        while i < N {
            if i < hdr_end && i != 9 {
                let b = if i >= 4 && i < 8 { l0[i - 4] } else { self.buf[i] };
                t = t.wrapping_add(b);
            }
            i += 1;
        }
        let mut cur = first as u32;
        let mut k = 0;
        while k < ncuts {
            let a = if cuts[k] < end { cuts[k] } else { end };
            let b = if k + 1 < ncuts { if cuts[k + 1] < end { cuts[k + 1] } else { end } } else { end };
            let new = cur.wrapping_add((b - a) as u32);
            let o = cur.to_le_bytes();
            let n = new.to_le_bytes();
            t = t.wrapping_sub(o[0]).wrapping_sub(o[1]).wrapping_sub(o[2]).wrapping_sub(o[3]);
            t = t.wrapping_add(n[0]).wrapping_add(n[1]).wrapping_add(n[2]).wrapping_add(n[3]);
            let mut seg = if running { t } else { 0u8 };
            let mut j = 0;
            while j < N {
                if j >= a && j < b {
                    seg = seg.wrapping_add(self.buf[j]);
                }
                j += 1;
            }
            t = if running { seg } else { t.wrapping_add(seg) };
            cur = new;
            k += 1;
        }
        // exactness: swap the expected final length bytes for the ones actually emitted
        let c = cur.to_le_bytes();
        let mut q = 0;
        while q < 4 {
            if 4 + q < end {
                t = t.wrapping_sub(c[q]).wrapping_add(self.buf[4 + q]);
            } else {
                t = t.wrapping_sub(c[q]);
            }
            q += 1;
        }
        t
    }
    pub fn sum_skip9(&self) -> u8 {
        let mut s = 0u8;
        let mut i = 0;
        while i < N {
            if i < self.len && i != 9 {
                s = s.wrapping_add(self.buf[i]);
            }
            i += 1;
        }
        s
    }
    pub fn sum_range(&self, from: usize, to: usize) -> u8 {
        let mut s = 0u8;
        let mut i = 0;
        while i < N {
            if i >= from && i < to {
                s = s.wrapping_add(self.buf[i]);
            }
            i += 1;
        }
        s
    }
    pub fn u8(&self, off: usize) -> u8 {
        self.buf[off]
    }
    pub fn u16(&self, off: usize) -> u16 {
        u16::from_le_bytes([self.buf[off], self.buf[off + 1]])
    }
    pub fn u32(&self, off: usize) -> u32 {
        u32::from_le_bytes([
            self.buf[off],
            self.buf[off + 1],
            self.buf[off + 2],
            self.buf[off + 3],
        ])
    }
    pub fn u64(&self, off: usize) -> u64 {
        (self.u32(off) as u64) | ((self.u32(off + 4) as u64) << 32)
    }
    /// bytes equal to `exp[..n]` and length equal to n
    pub fn eq_bytes(&self, exp: &[u8], n: usize) -> bool {
        if self.len != n {
            return false;
        }
        let mut ok = true;
        let mut i = 0;
        while i < N {
            if i < n && self.buf[i] != exp[i] {
                ok = false;
            }
            i += 1;
        }
        ok
    }
}

/// Sink overriding every entry point; records the concatenation and which entry
/// points were used.
pub struct AllSink<const N: usize> {
    pub r: Rec<N>,
    pub used: u8,
}

impl<const N: usize> AllSink<N> {
    pub fn new() -> Self {
        AllSink { r: Rec::new(), used: 0 }
    }
}

impl<const N: usize> AmlSink for AllSink<N> {
    fn byte(&mut self, b: u8) {
        self.used |= 1;
        self.r.byte(b);
    }
    fn word(&mut self, w: u16) {
        self.used |= 2;
        let b = w.to_le_bytes();
        self.r.byte(b[0]);
        self.r.byte(b[1]);
    }
    fn dword(&mut self, d: u32) {
        self.used |= 4;
        let b = d.to_le_bytes();
        let mut i = 0;
        while i < 4 {
            self.r.byte(b[i]);
            i += 1;
        }
    }
    fn qword(&mut self, q: u64) {
        self.used |= 8;
        let b = q.to_le_bytes();
        let mut i = 0;
        while i < 8 {
            self.r.byte(b[i]);
            i += 1;
        }
    }
    fn vec(&mut self, v: &[u8]) {
        self.used |= 16;
        let mut i = 0;
        while i < v.len() {
            self.r.byte(v[i]);
            i += 1;
        }
    }
}

/// Expected-bytes builder used by the specification-derived reference encoders.
#[derive(Clone, Copy)]
pub struct Exp<const N: usize> {
    pub b: [u8; N],
    pub n: usize,
}

impl<const N: usize> Exp<N> {
    pub fn new() -> Self {
        Exp { b: [0u8; N], n: 0 }
    }
    pub fn u8(&mut self, v: u8) -> &mut Self {
        self.b[self.n] = v;
        self.n += 1;
        self
    }
    pub fn u16(&mut self, v: u16) -> &mut Self {
        let x = v.to_le_bytes();
        self.u8(x[0]).u8(x[1])
    }
    pub fn u32(&mut self, v: u32) -> &mut Self {
        let x = v.to_le_bytes();
        self.u8(x[0]).u8(x[1]).u8(x[2]).u8(x[3])
    }
    pub fn u64(&mut self, v: u64) -> &mut Self {
        self.u32(v as u32).u32((v >> 32) as u32)
    }
    pub fn bytes(&mut self, s: &[u8]) -> &mut Self {
        let mut i = 0;
        while i < s.len() {
            self.u8(s[i]);
            i += 1;
        }
        self
    }
    pub fn zeros(&mut self, k: usize) -> &mut Self {
        let mut i = 0;
        while i < k {
            self.u8(0);
            i += 1;
        }
        self
    }
    pub fn append<const M: usize>(&mut self, o: &Exp<M>) -> &mut Self {
        let mut i = 0;
        while i < M {
            if i < o.n {
                self.u8(o.b[i]);
            }
            i += 1;
        }
        self
    }
    pub fn sum(&self) -> u8 {
        let mut s = 0u8;
        let mut i = 0;
        while i < N {
            if i < self.n {
                s = s.wrapping_add(self.b[i]);
            }
            i += 1;
        }
        s
    }
}

/// Opaque child: emits `data[..len]`; both symbolic (len <= N).
pub struct Blob<const N: usize> {
    pub data: [u8; N],
    pub len: usize,
}

impl<const N: usize> Blob<N> {
    pub fn any() -> Self {
        let data: [u8; N] = kani::any();
        let len: usize = kani::any();
        kani::assume(len <= N);
        Blob { data, len }
    }
    /// concrete length, symbolic content
    pub fn any_len(len: usize) -> Self {
        let data: [u8; N] = kani::any();
        Blob { data, len }
    }
}

impl<const N: usize> Aml for Blob<N> {
    fn to_aml_bytes(&self, sink: &mut dyn AmlSink) {
        let mut i = 0;
        while i < N {
            if i < self.len {
                sink.byte(self.data[i]);
            }
            i += 1;
        }
    }
}

/// Symbolic standard-header arguments.
pub fn sym_oem() -> ([u8; 6], [u8; 8], u32) {
    (kani::any(), kani::any(), kani::any())
}

/// Header arguments for the checksum *history* harnesses (C01 with adds, SAT back end): everything
/// concrete except the low byte of the OEM revision, which makes the running sum after `new()` range
/// over all 256 states. (All header fields symbolic at once is covered by the constructor-only
/// harnesses; with all of them symbolic *and* delta updates, proving the byte sum needs bit-level
/// associativity over ~18 operands, which is where SAT solvers stop.)
pub fn one_byte_oem() -> ([u8; 6], [u8; 8], u32) {
    let x: u8 = kani::any();
    (*b"OEMID1", *b"TABLEID1", 0x0102_0300 | x as u32)
}

pub fn oem_for(p: u8, has_adds: bool) -> ([u8; 6], [u8; 8], u32) {
    if p == 1 && has_adds {
        one_byte_oem()
    } else {
        sym_oem()
    }
}

/// Reference 36-byte header (ACPI 6.5 §5.2.6) with checksum byte left 0.
pub fn ref_header<const N: usize>(
    e: &mut Exp<N>,
    sig: &[u8; 4],
    length: u32,
    revision: u8,
    oem: &([u8; 6], [u8; 8], u32),
) {
    e.bytes(sig).u32(length).u8(revision).u8(0);
    e.bytes(&oem.0).bytes(&oem.1).u32(oem.2);
    e.bytes(b"RVAT").bytes(&[0, 0, 0, 1]);
}

/// Leak symbolic ASCII bytes as a `&'static str` of concrete length.
pub fn sym_static_str<const L: usize>() -> (&'static str, [u8; L]) {
    let bytes: [u8; L] = kani::any();
    let mut i = 0;
    while i < L {
        kani::assume(bytes[i] < 0x80 && bytes[i] != 0);
        i += 1;
    }
    let leaked: &'static mut [u8; L] = Box::leak(Box::new(bytes));
    let s: &'static str = unsafe { core::str::from_utf8_unchecked(&leaked[..]) };
    (s, bytes)
}

// ---------------------------------------------------------------- AML decoders (ACPI 6.5 §20.2)

/// PkgLength decoder (§20.2.4). Returns (value, bytes used, lead-byte format ok).
pub fn decode_pkglen(b: &[u8], off: usize) -> (usize, usize, bool) {
    let lead = b[off];
    let follow = (lead >> 6) as usize;
    if follow == 0 {
        return ((lead & 0x3f) as usize, 1, true);
    }
    let mut val = (lead & 0x0f) as usize;
    let mut i = 0;
    while i < 3 {
        if i < follow {
            val |= (b[off + 1 + i] as usize) << (4 + 8 * i);
        }
        i += 1;
    }
    (val, follow + 1, lead & 0x30 == 0)
}

/// largest total a PkgLength of n bytes can state
pub fn pkglen_max(n: usize) -> usize {
    match n {
        1 => 63,
        2 => (1 << 12) - 1,
        3 => (1 << 20) - 1,
        _ => (1 << 28) - 1,
    }
}

/// reference: shortest self-inclusive PkgLength for a body of `len` bytes
pub fn ref_pkglen_incl<const N: usize>(e: &mut Exp<N>, len: usize) {
    let mut n = 1;
    while n < 4 && len + n > pkglen_max(n) {
        n += 1;
    }
    let total = len + n;
    if n == 1 {
        e.u8(total as u8);
    } else {
        e.u8((((n - 1) as u8) << 6) | (total & 0xf) as u8);
        let mut i = 0;
        while i < 3 {
            if i < n - 1 {
                e.u8((total >> (4 + 8 * i)) as u8);
            }
            i += 1;
        }
    }
}

/// Integer constant reference encoder (§20.2.3): ZeroOp, OneOp, Byte/Word/DWord/QWord prefix.
pub fn ref_int<const N: usize>(e: &mut Exp<N>, v: u64) {
    if v == 0 {
        e.u8(0x00);
    } else if v == 1 {
        e.u8(0x01);
    } else if v <= 0xff {
        e.u8(0x0a).u8(v as u8);
    } else if v <= 0xffff {
        e.u8(0x0b).u16(v as u16);
    } else if v <= 0xffff_ffff {
        e.u8(0x0c).u32(v as u32);
    } else {
        e.u8(0x0e).u64(v);
    }
}

/// Integer constant decoder: (value, bytes used, recognised)
pub fn decode_int(b: &[u8], off: usize) -> (u64, usize, bool) {
    match b[off] {
        0x00 => (0, 1, true),
        0x01 => (1, 1, true),
        0x0a => (b[off + 1] as u64, 2, true),
        0x0b => (u16::from_le_bytes([b[off + 1], b[off + 2]]) as u64, 3, true),
        0x0c => (
            u32::from_le_bytes([b[off + 1], b[off + 2], b[off + 3], b[off + 4]]) as u64,
            5,
            true,
        ),
        0x0e => {
            let lo = u32::from_le_bytes([b[off + 1], b[off + 2], b[off + 3], b[off + 4]]) as u64;
            let hi = u32::from_le_bytes([b[off + 5], b[off + 6], b[off + 7], b[off + 8]]) as u64;
            (lo | (hi << 32), 9, true)
        }
        _ => (0, 0, false),
    }
}

/// Symbolic name path through the Path hook: (path, root, segments)
pub fn sym_path<const S: usize>() -> (acpi_tables::aml::Path, bool, [[u8; 4]; S]) {
    let root: bool = kani::any();
    sym_path_r::<S>(root)
}

/// Same with the caller choosing `root` (concrete root keeps every Vec length concrete).
pub fn sym_path_r<const S: usize>(root: bool) -> (acpi_tables::aml::Path, bool, [[u8; 4]; S]) {
    let segs: [[u8; 4]; S] = kani::any();
    let mut v = Vec::with_capacity(S);
    let mut i = 0;
    while i < S {
        v.push(segs[i]);
        i += 1;
    }
    (acpi_tables::aml::Path::verif_from_parts(root, v), root, segs)
}

/// Symbolic path whose very first character is the concrete `lead` (so that a decoder's
/// prefix tests on that byte are concrete); everything else symbolic.
pub fn sym_path_lead<const S: usize>(root: bool, lead: u8) -> (acpi_tables::aml::Path, bool, [[u8; 4]; S]) {
    let mut segs: [[u8; 4]; S] = kani::any();
    segs[0][0] = lead;
    let mut v = Vec::with_capacity(S);
    let mut i = 0;
    while i < S {
        v.push(segs[i]);
        i += 1;
    }
    (acpi_tables::aml::Path::verif_from_parts(root, v), root, segs)
}

/// Reference NameString (§20.2.2)
pub fn ref_namestring<const N: usize, const S: usize>(e: &mut Exp<N>, root: bool, segs: &[[u8; 4]; S]) {
    if root {
        e.u8(0x5c);
    }
    if S == 2 {
        e.u8(0x2e);
    } else if S > 2 {
        e.u8(0x2f).u8(S as u8);
    }
    let mut i = 0;
    while i < S {
        e.bytes(&segs[i]);
        i += 1;
    }
}

impl<const N: usize> Exp<N> {
    pub fn blob<const M: usize>(&mut self, b: &Blob<M>) -> &mut Self {
        let mut i = 0;
        while i < M {
            if i < b.len {
                self.u8(b.data[i]);
            }
            i += 1;
        }
        self
    }
}

/// opcode bytes + shortest self-inclusive PkgLength + body
pub fn ref_pkg_object<const B: usize, const N: usize>(op: &[u8], body: &Exp<B>) -> Exp<N> {
    let mut e: Exp<N> = Exp::new();
    e.bytes(op);
    ref_pkglen_incl(&mut e, body.n);
    e.append(body);
    e
}

/// For a length-prefixed object whose opcode is `oplen` bytes: does the PkgLength (decoded by
/// the specification's rule) end exactly at the end of the emitted bytes?
pub fn pkg_closes<const N: usize>(r: &Rec<N>, oplen: usize) -> bool {
    let (val, _n, fmt) = decode_pkglen(&r.buf, oplen);
    fmt && oplen + val == r.len
}


// ------------------------------------------------------------------------------ concrete twins
/// `FIXED == 0`: every value drawn by the entry builders is symbolic (the normal case).
/// `FIXED == n > 0`: every value drawn is the concrete pattern `n - 1` (all-zero entries for 1,
/// all-one entries for 2), so the entries of a sequence are identical to each other. Set as a
/// constant at the top of a `seqfx!` harness, before anything is drawn. These twins exist for
/// changes that make the *number* of emitted entries depend on entry values (merging duplicates,
/// skipping "empty" or "disabled" entries): with symbolic values such a change makes every length
/// symbolic and the query undecidable in time (rule 1 of DESIGN 6.2); with equal concrete values it
/// is decided in seconds.
pub static mut FIXED: u8 = 0;

pub trait Fx: Sized {
    fn fx(v: u8) -> Self;
}
macro_rules! fx_int { ($($t:ty),*) => { $( impl Fx for $t { fn fx(v: u8) -> Self { v as $t } } )* } }
fx_int!(u8, u16, u32, u64, usize);
impl Fx for bool {
    fn fx(v: u8) -> Self {
        v != 0
    }
}
impl<T: Fx + Copy, const N: usize> Fx for [T; N] {
    fn fx(v: u8) -> Self {
        [T::fx(v); N]
    }
}
/// symbolic value, or the concrete twin's pattern
pub fn sv<T: kani::Arbitrary + Fx>() -> T {
    let f = unsafe { FIXED };
    if f == 0 {
        kani::any()
    } else {
        T::fx(f - 1)
    }
}
