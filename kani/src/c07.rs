//! C07 — PkgLength encodings are correct for every representable length.
use crate::common::*;
use acpi_tables::aml;
use acpi_tables::Aml;

pub mod c07 {
    use super::*;

    /// self-inclusive form, every content size whose total fits 28 bits, through the hook
    #[kani::proof]
    #[kani::unwind(6)]
    pub fn q_inclusive_all_lengths() {
        let len: usize = kani::any();
        kani::assume(len < (1usize << 28) - 4);
        let v = aml::verif_create_pkg_length(len, true);
        let n = v.len();
        let n_ok = n >= 1 && n <= 4;
        let mut buf = [0u8; 4];
        let mut i = 0;
        while i < 4 {
            if i < n {
                buf[i] = v[i];
            }
            i += 1;
        }
        let (val, used, fmt_ok) = decode_pkglen(&buf, 0);
        // minimality: no shorter encoding could have included its own size
        let mut minimal = true;
        let mut k = 1;
        while k < 4 {
            if k < n && len + k <= pkglen_max(k) {
                minimal = false;
            }
            k += 1;
        }
        verdicts! {
            "C07: PkgLength is 1..=4 bytes": n_ok,
            "C07: follow-byte count in bits 7-6 equals bytes emitted": used == n,
            "C07: bits 5-4 zero when follow bytes present": fmt_ok,
            "C07: inclusive PkgLength decodes to content + own size": val == len + n,
            "C07: inclusive PkgLength is the shortest that can include itself": minimal,
        }
        kani::cover!(n == 1, "REACHED-1");
        kani::cover!(n == 4, "REACHED-4");
    }

    /// exclusive form (field widths), every length below 2^28, through the hook
    #[kani::proof]
    #[kani::unwind(6)]
    pub fn q_exclusive_all_lengths() {
        let len: usize = kani::any();
        kani::assume(len < (1usize << 28));
        let v = aml::verif_create_pkg_length(len, false);
        let n = v.len();
        let n_ok = n >= 1 && n <= 4;
        let mut buf = [0u8; 4];
        let mut i = 0;
        while i < 4 {
            if i < n {
                buf[i] = v[i];
            }
            i += 1;
        }
        let (val, used, fmt_ok) = decode_pkglen(&buf, 0);
        verdicts! {
            "C07: PkgLength is 1..=4 bytes": n_ok,
            "C07: follow-byte count in bits 7-6 equals bytes emitted": used == n,
            "C07: bits 5-4 zero when follow bytes present": fmt_ok,
            "C07: exclusive PkgLength decodes to exactly the width given": val == len,
        }
        kani::cover!(n == 1, "REACHED-1");
        kani::cover!(n == 4, "REACHED-4");
    }

    fn field_entry(named: bool) {
        let len: usize = kani::any();
        kani::assume(len < (1usize << 28));
        let (path, root, segs) = sym_path_r::<1>(false);
        let name: [u8; 4] = kani::any();
        let entry = if named {
            aml::FieldEntry::Named(name, len)
        } else {
            aml::FieldEntry::Reserved(len)
        };
        let f = aml::Field::new(
            path,
            aml::FieldAccessType::Any,
            aml::FieldLockRule::NoLock,
            aml::FieldUpdateRule::Preserve,
            vec![entry],
        );
        let r: Rec<20> = Rec::of(&f);
        // 5B 81 PkgLength(1 byte: body <= 15) NameString flags entry
        let (outer, ou, ofmt) = decode_pkglen(&r.buf, 2);
        let mut p = 2 + ou;
        if root {
            p += 1;
        }
        p += 4; // one segment
        p += 1; // flags
        let tag_ok = if named {
            let ok = r.buf[p] == name[0] && r.buf[p + 1] == name[1] && r.buf[p + 2] == name[2] && r.buf[p + 3] == name[3];
            p += 4;
            ok
        } else {
            let ok = r.buf[p] == 0;
            p += 1;
            ok
        };
        let _ = segs;
        let (w, wu, wfmt) = decode_pkglen(&r.buf, p);
        verdicts! {
            "C07: recorder large enough": r.fits(),
            "C07: field entry tag (NameSeg / 0x00) precedes the width": tag_ok,
            "C07: field width PkgLength format": wfmt && ofmt,
            "C07: field width decodes to exactly the width given": w == len,
            "C07: Field object PkgLength closes on the end of the last entry": 2 + outer == r.len && p + wu == r.len,
        }
        kani::cover!(len > 70000, "REACHED");
    }

    #[kani::proof]
    #[kani::unwind(22)]
    pub fn q_field_reserved_width() {
        field_entry(false);
    }

    #[kani::proof]
    #[kani::unwind(22)]
    pub fn q_field_named_width() {
        field_entry(true);
    }
}
