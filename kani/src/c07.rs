//! C07 — PkgLength encodings are correct for every representable length.
use crate::common::*;
use acpi_tables::aml;
use acpi_tables::Aml;

pub mod c07 {
    use super::*;

    /// self-inclusive form, every content size whose total fits 28 bits, through the hook
    #[kani::proof]
    #[kani::unwind(6)]
    pub fn q_inclusive_all_lengths() {
        let len: usize = kani::any();
        kani::assume(len < (1usize << 28) - 4);
        let v = aml::verif_create_pkg_length(len, true);
        let n = v.len();
        let n_ok = n >= 1 && n <= 4;
        let mut buf = [0u8; 4];
        let mut i = 0;
        while i < 4 {
            if i < n {
                buf[i] = v[i];
            }
            i += 1;
        }
        let (val, used, fmt_ok) = decode_pkglen(&buf, 0);
        // minimality: no shorter encoding could have included its own size
        let mut minimal = true;
        let mut k = 1;
        while k < 4 {
            if k < n && len + k <= pkglen_max(k) {
                minimal = false;
            }
            k += 1;
        }
        verdicts! {
            "C07: PkgLength is 1..=4 bytes": n_ok,
            "C07: follow-byte count in bits 7-6 equals bytes emitted": used == n,
            "C07: bits 5-4 zero when follow bytes present": fmt_ok,
            "C07: inclusive PkgLength decodes to content + own size": val == len + n,
            "C07: inclusive PkgLength is the shortest that can include itself": minimal,
        }
        kani::cover!(n == 1, "REACHED-1");
        kani::cover!(n == 4, "REACHED-4");
    }

    /// exclusive form (field widths), every length below 2^28, through the hook
    #[kani::proof]
    #[kani::unwind(6)]
    pub fn q_exclusive_all_lengths() {
        let len: usize = kani::any();
        kani::assume(len < (1usize << 28));
        let v = aml::verif_create_pkg_length(len, false);
        let n = v.len();
        let n_ok = n >= 1 && n <= 4;
        let mut buf = [0u8; 4];
        let mut i = 0;
        while i < 4 {
            if i < n {
                buf[i] = v[i];
            }
            i += 1;
        }
        let (val, used, fmt_ok) = decode_pkglen(&buf, 0);
        verdicts! {
            "C07: PkgLength is 1..=4 bytes": n_ok,
            "C07: follow-byte count in bits 7-6 equals bytes emitted": used == n,
            "C07: bits 5-4 zero when follow bytes present": fmt_ok,
            "C07: exclusive PkgLength decodes to exactly the width given": val == len,
        }
        kani::cover!(n == 1, "REACHED-1");
        kani::cover!(n == 4, "REACHED-4");
    }

    fn field_entry(named: bool) {
        let len: usize = kani::any();
        kani::assume(len < (1usize << 28));
        let (path, root, segs) = sym_path_r::<1>(false);
        let name: [u8; 4] = kani::any();
        let entry = if named {
            aml::FieldEntry::Named(name, len)
        } else {
            aml::FieldEntry::Reserved(len)
        };
        let f = aml::Field::new(
            path,
            aml::FieldAccessType::Any,
            aml::FieldLockRule::NoLock,
            aml::FieldUpdateRule::Preserve,
            vec![entry],
        );
        let r: Rec<20> = Rec::of(&f);
        // 5B 81 PkgLength(1 byte: body <= 15) NameString flags entry
        let (outer, ou, ofmt) = decode_pkglen(&r.buf, 2);
        let mut p = 2 + ou;
        if root {
            p += 1;
        }
        p += 4; // one segment
        p += 1; // flags
        let tag_ok = if named {
            let ok = r.buf[p] == name[0] && r.buf[p + 1] == name[1] && r.buf[p + 2] == name[2] && r.buf[p + 3] == name[3];
            p += 4;
            ok
        } else {
            let ok = r.buf[p] == 0;
            p += 1;
            ok
        };
        let _ = segs;
        let (w, wu, wfmt) = decode_pkglen(&r.buf, p);
        verdicts! {
            "C07: recorder large enough": r.fits(),
            "C07: field entry tag (NameSeg / 0x00) precedes the width": tag_ok,
            "C07: field width PkgLength format": wfmt && ofmt,
            "C07: field width decodes to exactly the width given": w == len,
            "C07: Field object PkgLength closes on the end of the last entry": 2 + outer == r.len && p + wu == r.len,
        }
        kani::cover!(len > 70000, "REACHED");
    }

    #[kani::proof]
    #[kani::unwind(22)]
    pub fn q_field_reserved_width() {
        field_entry(false);
    }

    #[kani::proof]
    #[kani::unwind(22)]
    pub fn q_field_named_width() {
        field_entry(true);
    }

    /// Call sites (added after seeded change C07_r7A): every length-prefixed object kind the crate
    /// emits, small bodies with symbolic contents; the PkgLength found after the opcode must decode to
    /// the number of bytes from its own first byte to the end of the object and be one byte wide
    /// (all totals here are <= 63). Ties the public constructors to the encoder decided above;
    /// `BufferData` at 0..=3 bytes is where the size operand changes width (ZeroOp/OneOp/BytePrefix).
    pub mod sites {
        use super::*;
        use acpi_tables::aml::*;
        type B3 = Blob<3>;

        fn closes<const N: usize>(r: &Rec<N>, oplen: usize) {
            let (pl, pn, fmt) = decode_pkglen(&r.buf, oplen);
            verdicts! {
                "C07: recorder large enough": r.fits(),
                "C07: call site: PkgLength lead-byte format": fmt,
                "C07: call site: PkgLength decodes to the bytes from its own first byte to the end of the object": oplen + pl == r.len,
                "C07: call site: shortest encoding (one byte for totals <= 63)": pn == 1,
            }
            kani::cover!(true, "REACHED");
        }

        macro_rules! site {
            ($name:ident, $unw:expr, $oplen:expr, |$a:ident, $b:ident, $p:ident| $obj:expr) => {
                #[kani::proof]
                #[kani::unwind($unw)]
                pub fn $name() {
                    let $a = B3::any_len(3);
                    let $b = B3::any_len(2);
                    let ($p, _root, _segs) = sym_path_r::<1>(false);
                    let _ = (&$a, &$b, &$p);
                    let r: Rec<40> = Rec::of(&$obj);
                    closes(&r, $oplen);
                }
            };
        }
        site!(q_site_scope_0, 16, 1, |a, b, p| Scope::new(p, vec![]));
        site!(q_site_scope_2, 16, 1, |a, b, p| Scope::new(p, vec![&a, &b]));
        site!(q_site_device_0, 16, 2, |a, b, p| Device::new(p, vec![]));
        site!(q_site_device_2, 16, 2, |a, b, p| Device::new(p, vec![&a, &b]));
        site!(q_site_method_0, 16, 1, |a, b, p| Method::new(p, 2, false, vec![]));
        site!(q_site_method_2, 16, 1, |a, b, p| Method::new(p, 2, true, vec![&a, &b]));
        site!(q_site_power_0, 16, 2, |a, b, p| PowerResource::new(p, 1, 2, vec![]));
        site!(q_site_power_2, 16, 2, |a, b, p| PowerResource::new(p, 1, 2, vec![&a, &b]));
        site!(q_site_if_0, 16, 1, |a, b, p| If::new(&a, vec![]));
        site!(q_site_if_1, 16, 1, |a, b, p| If::new(&a, vec![&b]));
        site!(q_site_else_0, 16, 1, |a, b, p| Else::new(vec![]));
        site!(q_site_else_2, 16, 1, |a, b, p| Else::new(vec![&a, &b]));
        site!(q_site_while_0, 16, 1, |a, b, p| While::new(&a, vec![]));
        site!(q_site_while_1, 16, 1, |a, b, p| While::new(&a, vec![&b]));
        site!(q_site_package_0, 16, 1, |a, b, p| Package::new(vec![]));
        site!(q_site_package_2, 16, 1, |a, b, p| Package::new(vec![&a, &b]));
        site!(q_site_varpackage, 16, 1, |a, b, p| VarPackageTerm::new(&a));
        site!(q_site_bufferterm, 16, 1, |a, b, p| BufferTerm::new(&a));
        site!(q_site_template_0, 16, 1, |a, b, p| ResourceTemplate::new(vec![]));
        site!(q_site_template_2, 16, 1, |a, b, p| ResourceTemplate::new(vec![&a, &b]));

        macro_rules! bufdata_site {
            ($name:ident, $n:expr) => {
                #[kani::proof]
                #[kani::unwind(16)]
                pub fn $name() {
                    let data: [u8; $n] = kani::any();
                    let r: Rec<40> = Rec::of(&BufferData::new(data.to_vec()));
                    closes(&r, 1);
                }
            };
        }
        bufdata_site!(q_site_bufferdata_0, 0);
        bufdata_site!(q_site_bufferdata_1, 1);
        bufdata_site!(q_site_bufferdata_2, 2);
        bufdata_site!(q_site_bufferdata_3, 3);

        #[kani::proof]
        #[kani::unwind(16)]
        pub fn q_site_packagebuilder() {
            let a = B3::any_len(3);
            let b = B3::any_len(2);
            let mut pb = PackageBuilder::new();
            pb.add_element(&a);
            pb.add_element(&b);
            let r: Rec<40> = Rec::of(&pb);
            closes(&r, 1);
        }
    }
}
