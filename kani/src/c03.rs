//! C03 — see DESIGN.md section 3. Harness bodies live in tables.rs / fixed.rs; the sequence
//! lists are shared between C01..C04 and select their property through the const `P`.
pub mod c03 {
    pub const P: u8 = 3;
    pub mod var {
        use super::P;
        include!("seqs_var.in");
    }
    pub mod fx {
        use super::P;
        use crate::tables::*;
        include!("seqs_fx.in");
    }
}
