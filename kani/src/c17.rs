//! C17 — the checksum accumulator is a faithful mod-256 sum with exact inverses.
use crate::common::*;
use acpi_tables::{AmlSink, Checksum};

/// every accumulator state is reachable by add(s) from default
fn state(s: u8) -> Checksum {
    let mut c = Checksum::default();
    c.add(s);
    c
}

pub mod c17 {
    use super::*;

    #[kani::proof]
    pub fn q_add_sub_value() {
        let s: u8 = kani::any();
        let b: u8 = kani::any();
        let mut c = state(s);
        let raw0 = c.raw_value();
        c.add(b);
        let raw1 = c.raw_value();
        let v1 = c.value();
        c.sub(b);
        let raw2 = c.raw_value();
        let mut d = state(s);
        d.sub(b);
        let raw3 = d.raw_value();
        d.add(b);
        let raw4 = d.raw_value();
        verdicts! {
            "C17: default+add(s) has raw value s": raw0 == s,
            "C17: add(b) adds b mod 256": raw1 as u32 == (s as u32 + b as u32) % 256,
            "C17: raw + value == 0 mod 256": (raw1 as u32 + v1 as u32) % 256 == 0,
            "C17: sub(b) undoes add(b)": raw2 == s,
            "C17: sub(b) subtracts b mod 256": raw3 as u32 == (s as u32 + 256 - b as u32) % 256,
            "C17: add(b) undoes sub(b)": raw4 == s,
        }
        kani::cover!(true, "REACHED");
    }

    fn wide_sum(data: &[u8]) -> u32 {
        let mut t = 0u32;
        let mut i = 0;
        while i < data.len() {
            t += data[i] as u32;
            i += 1;
        }
        t
    }

    macro_rules! slice_harness {
        ($name:ident, $n:expr) => {
            #[kani::proof]
            #[kani::unwind(12)]
            #[kani::solver(z3)]
            pub fn $name() {
                let s: u8 = kani::any();
                let data: [u8; $n] = kani::any();
                let mut c = state(s);
                c.append(&data);
                let raw1 = c.raw_value();
                let v1 = c.value();
                c.delete(&data);
                let raw2 = c.raw_value();
                let mut d = state(s);
                d.delete(&data);
                let raw3 = d.raw_value();
                d.append(&data);
                let raw4 = d.raw_value();
                // byte-by-byte equals slice
                let mut e = state(s);
                let mut i = 0;
                while i < $n {
                    e.add(data[i]);
                    i += 1;
                }
                let w = wide_sum(&data);
                verdicts! {
                    "C17: append(slice) == wide sum mod 256": raw1 as u32 == (s as u32 + w) % 256,
                    "C17: raw + value == 0 after append": raw1.wrapping_add(v1) == 0,
                    "C17: delete undoes append": raw2 == s,
                    "C17: delete(slice) == minus wide sum mod 256": (raw3 as u32 + w) % 256 == s as u32,
                    "C17: append undoes delete": raw4 == s,
                    "C17: singly == slice": e.raw_value() == raw1,
                }
                kani::cover!(true, "REACHED");
            }
        };
    }
    slice_harness!(q_slice_0, 0);
    slice_harness!(q_slice_1, 1);
    slice_harness!(q_slice_2, 2);
    slice_harness!(q_slice_3, 3);
    slice_harness!(q_slice_5, 5);
    slice_harness!(q_slice_8, 8);
    slice_harness!(t_slice_4, 4);
    slice_harness!(t_slice_6, 6);
    slice_harness!(t_slice_7, 7);
    slice_harness!(t_slice_9, 9);
    slice_harness!(t_slice_10, 10);

    /// long slices: append == the in-order byte fold (any lane/chunk arithmetic inside append must agree),
    /// delete undoes it. The reference is the sequential wrapping fold, so for a byte-at-a-time
    /// implementation both sides are the same expression and the SAT back end answers at once.
    macro_rules! long_slice_harness {
        ($name:ident, $n:expr, $unw:expr) => {
            #[kani::proof]
            #[kani::unwind($unw)]
            pub fn $name() {
                let s: u8 = kani::any();
                let data: [u8; $n] = kani::any();
                let mut c = state(s);
                c.append(&data);
                let raw1 = c.raw_value();
                let mut d = state(s);
                d.delete(&data);
                let raw2 = d.raw_value();
                let mut f = s;
                let mut g = s;
                let mut i = 0;
                while i < $n {
                    f = f.wrapping_add(data[i]);
                    g = g.wrapping_sub(data[i]);
                    i += 1;
                }
                verdicts! {
                    "C17: append(long slice) == sum of its bytes mod 256": raw1 == f,
                    "C17: delete(long slice) == minus the sum of its bytes mod 256": raw2 == g,
                }
                kani::cover!(true, "REACHED");
            }
        };
    }
    /// extreme concrete contents at a length no symbolic harness reaches quickly: all-0xFF and 0xFF in
    /// alternating positions (the inputs on which a chunked/lane-wise accumulation first loses a carry);
    /// the accumulator state stays symbolic.
    macro_rules! extreme_slice_harness {
        ($name:ident, $n:expr, $unw:expr, $pat:expr) => {
            #[kani::proof]
            #[kani::unwind($unw)]
            pub fn $name() {
                let s: u8 = kani::any();
                let mut data = [0u8; $n];
                let mut i = 0;
                let mut wide: u32 = 0;
                while i < $n {
                    let f: fn(usize) -> u8 = $pat;
                    data[i] = f(i);
                    wide += data[i] as u32;
                    i += 1;
                }
                let mut c = state(s);
                c.append(&data);
                let raw1 = c.raw_value();
                c.delete(&data);
                verdicts! {
                    "C17: append(long extreme slice) == sum of its bytes mod 256": raw1 as u32 == (s as u32 + wide) % 256,
                    "C17: delete undoes append on a long extreme slice": c.raw_value() == s,
                }
                kani::cover!(true, "REACHED");
            }
        };
    }
    /// 1100 bytes of 0xFF from a constant array (no construction loop in the harness, append only):
    /// cheap enough for the quick tier, and long and heavy enough to overflow any 16-bit partial sum
    /// that is not folded often enough (seeded change C17_m1)
    static FF_1100: [u8; 1100] = [0xff; 1100];
    #[kani::proof]
    #[kani::unwind(1110)]
    pub fn q_slice_ff_1100_append() {
        let s: u8 = kani::any();
        let mut c = state(s);
        c.append(&FF_1100);
        // 1100 * 255 = 280500 = 1095 * 256 + 180
        assert!(c.raw_value() == s.wrapping_add(180), "C17: append(1100 x 0xFF) == sum of its bytes mod 256");
        kani::cover!(true, "REACHED");
    }
    extreme_slice_harness!(t_slice_ff_1100, 1100, 1110, |_i| 0xff);
    extreme_slice_harness!(t_slice_ff_even_1100, 1100, 1110, |i| if i % 2 == 0 { 0xff } else { 0 });

    long_slice_harness!(q_slice_64, 64, 70);
    long_slice_harness!(q_slice_260, 260, 270);
    long_slice_harness!(t_slice_1100, 1100, 1110);

    #[kani::proof]
    #[kani::unwind(12)]
    #[kani::solver(z3)]
    pub fn q_sink_interface() {
        let s: u8 = kani::any();
        let b: u8 = kani::any();
        let w: u16 = kani::any();
        let d: u32 = kani::any();
        let q: u64 = kani::any();
        let v: [u8; 5] = kani::any();
        let mut c = state(s);
        {
            let sink: &mut dyn AmlSink = &mut c;
            sink.byte(b);
            sink.word(w);
            sink.dword(d);
            sink.qword(q);
            sink.vec(&v);
        }
        let mut r = state(s);
        r.append(&[b]);
        r.append(&w.to_le_bytes());
        r.append(&d.to_le_bytes());
        r.append(&q.to_le_bytes());
        r.append(&v);
        let mut wide = s as u32 + b as u32;
        wide += wide_sum(&w.to_le_bytes()) + wide_sum(&d.to_le_bytes());
        wide += wide_sum(&q.to_le_bytes()) + wide_sum(&v);
        verdicts! {
            "C17: sink entry points == append of little-endian bytes": c.raw_value() == r.raw_value(),
            "C17: sink entry points == wide sum mod 256": c.raw_value() as u32 == wide % 256,
        }
        kani::cover!(true, "REACHED");
    }

    /// k operations with symbolic choice against a u32 wide reference (kept >= 0 by a bias).
    fn op_program(k: usize) {
        let s: u8 = kani::any();
        let mut c = state(s);
        let mut wide: u32 = 256 * 64 + s as u32;
        let mut prev_raw = c.raw_value();
        let mut inverse_ok = true;
        let mut i = 0;
        while i < k {
            let op: u8 = kani::any();
            kani::assume(op < 6);
            let data: [u8; 3] = kani::any();
            let n: usize = kani::any();
            kani::assume(n <= 3);
            let before = c.raw_value();
            match op {
                0 => {
                    c.add(data[0]);
                    wide += data[0] as u32;
                }
                1 => {
                    c.sub(data[0]);
                    wide -= data[0] as u32;
                }
                2 => {
                    c.append(&data[..n]);
                    wide += wide_sum(&data[..n]);
                }
                3 => {
                    c.delete(&data[..n]);
                    wide -= wide_sum(&data[..n]);
                }
                4 => {
                    let sink: &mut dyn AmlSink = &mut c;
                    sink.vec(&data[..n]);
                    wide += wide_sum(&data[..n]);
                }
                _ => {
                    // add then remove: must restore exactly
                    c.append(&data[..n]);
                    c.delete(&data[..n]);
                    if c.raw_value() != before {
                        inverse_ok = false;
                    }
                }
            }
            prev_raw = before;
            i += 1;
        }
        let _ = prev_raw;
        verdicts! {
            "C17: op sequence == wide reference mod 256": c.raw_value() as u32 == wide % 256,
            "C17: value makes raw+value == 0": c.raw_value().wrapping_add(c.value()) == 0,
            "C17: append;delete restores state": inverse_ok,
        }
        kani::cover!(true, "REACHED");
    }

    #[kani::proof]
    #[kani::unwind(5)]
    pub fn q_ops_3() {
        op_program(3);
    }

    #[kani::proof]
    #[kani::unwind(7)]
    pub fn t_ops_5() {
        op_program(5);
    }

    /// u8sum helper == arithmetic sum of serialised bytes (C14 shares this; cheap here)
    #[kani::proof]
    #[kani::unwind(10)]
    pub fn q_u8sum_helper() {
        let b: Blob<6> = Blob::any();
        let r: Rec<8> = Rec::of(&b);
        assert!(acpi_tables::u8sum(&b) == r.sum(), "C17: u8sum == sum of serialised bytes");
        kani::cover!(true, "REACHED");
    }
}
