//! C08 — integer constants round-trip and use the narrowest AML encoding.
use crate::common::*;
use acpi_tables::Aml;

pub mod c08 {
    use super::*;

    macro_rules! int_harness {
        ($name:ident, $t:ty) => {
            #[kani::proof]
            #[kani::unwind(12)]
            pub fn $name() {
                let v: $t = kani::any();
                let r: Rec<10> = Rec::of(&v);
                let mut e: Exp<10> = Exp::new();
                ref_int(&mut e, v as u64);
                let (dv, dn, dok) = decode_int(&r.buf, 0);
                verdicts! {
                    "C08: integer equals the narrowest reference encoding": r.eq_bytes(&e.b, e.n),
                    "C08: integer decodes back to the same value": dok && dv == v as u64 && dn == r.len,
                }
                kani::cover!(true, "REACHED");
            }
        };
    }
    int_harness!(q_u8_all, u8);
    int_harness!(q_u16_all, u16);
    int_harness!(q_u32_all, u32);
    int_harness!(q_u64_all, u64);
    int_harness!(q_usize_all, usize);

    /// same numeric value => identical bytes whichever type carried it
    #[kani::proof]
    #[kani::unwind(12)]
    pub fn q_cross_type_equal() {
        let v: u64 = kani::any();
        let r64: Rec<10> = Rec::of(&v);
        let rus: Rec<10> = Rec::of(&(v as usize));
        let mut same = r64.eq_bytes(&rus.buf, rus.len);
        if v <= u32::MAX as u64 {
            let r: Rec<10> = Rec::of(&(v as u32));
            same = same && r64.eq_bytes(&r.buf, r.len);
        }
        if v <= u16::MAX as u64 {
            let r: Rec<10> = Rec::of(&(v as u16));
            same = same && r64.eq_bytes(&r.buf, r.len);
        }
        if v <= u8::MAX as u64 {
            let r: Rec<10> = Rec::of(&(v as u8));
            same = same && r64.eq_bytes(&r.buf, r.len);
        }
        assert!(same, "C08: same value, same bytes across carrier types");
        kani::cover!(v <= 255, "REACHED");
    }

    /// embedded use: BufferData's size prefix is the integer encoding of the data length
    macro_rules! bufdata_harness {
        ($name:ident, $n:expr, $cap:expr) => {
            #[kani::proof]
            #[kani::unwind($cap)]
            pub fn $name() {
                let data: [u8; $n] = kani::any();
                let b = acpi_tables::aml::BufferData::new(data.to_vec());
                let r: Rec<{ $n + 10 }> = Rec::of(&b);
                let (pl, pn, pfmt) = decode_pkglen(&r.buf, 1);
                let (sz, sn, sok) = decode_int(&r.buf, 1 + pn);
                let mut e: Exp<10> = Exp::new();
                ref_int(&mut e, $n as u64);
                let mut prefix_min = sn == e.n;
                let mut i = 0;
                while i < 9 {
                    if i < e.n && r.buf[1 + pn + i] != e.b[i] {
                        prefix_min = false;
                    }
                    i += 1;
                }
                let mut data_ok = true;
                let mut i = 0;
                while i < $n {
                    if r.buf[1 + pn + sn + i] != data[i] {
                        data_ok = false;
                    }
                    i += 1;
                }
                verdicts! {
                    "C08: BufferOp": r.buf[0] == 0x11 && r.fits(),
                    "C08: buffer PkgLength closes on the end of the data": pfmt && 1 + pl == r.len,
                    "C08: buffer size is the narrowest integer encoding of the data length": sok && sz == $n && prefix_min,
                    "C08: buffer data verbatim after the size": data_ok && 1 + pn + sn + $n == r.len,
                }
                kani::cover!(true, "REACHED");
            }
        };
    }
    bufdata_harness!(q_bufdata_0, 0, 14);
    bufdata_harness!(q_bufdata_1, 1, 14);
    bufdata_harness!(q_bufdata_2, 2, 14);
    bufdata_harness!(q_bufdata_3, 3, 16);
    bufdata_harness!(t_bufdata_255, 255, 270);
    bufdata_harness!(t_bufdata_256, 256, 270);
}
