//! C18 — counts and sizes too large for their field are refused, never wrapped (dev-profile half;
//! the release-profile half is Engine M on release MIR, lib/mirsmt.py).
//! A `refuse_` harness passes iff the call panics inside the crate on every path or returns bytes
//! whose count/length fields agree with the content (checked by the harness's own assertions).
use crate::common::*;
use acpi_tables::aml::*;
use acpi_tables::Aml;

pub mod c18 {
    use super::*;

    // ------------------------------------------------------------------ package element count (1 byte)
    macro_rules! package_n {
        ($name:ident, $n:expr, $cap:expr, $unw:expr) => {
            #[kani::proof]
            #[kani::unwind($unw)]
            pub fn $name() {
                let kids: Vec<&dyn Aml> = vec![&ZERO as &dyn Aml; $n];
                kani::cover!(true, "CALLING");
                let r: Rec<$cap> = Rec::of(&Package::new(kids));
                let (_v, pn, _f) = decode_pkglen(&r.buf, 1);
                verdicts! {
                    "C18: package NumElements equals the number of elements that follow": r.buf[1 + pn] as usize == $n && r.len == 1 + pn + 1 + $n,
                    "C18: package PkgLength closes on the last element": pkg_closes(&r, 1),
                }
            }
        };
    }
    package_n!(q_package_3_accepted, 3, 12, 20);
    // t_package_255_accepted (255 elements accepted and counted) was tried in the thorough tier and
    // removed: 12 GB and no verdict in 2400 s. Acceptance is checked at 3 elements, refusal at 256 / 300.
    package_n!(t_refuse_package_256, 256, 264, 270);
    package_n!(t_refuse_package_300, 300, 308, 320);

    macro_rules! builder_n {
        ($name:ident, $n:expr, $cap:expr, $unw:expr) => {
            #[kani::proof]
            #[kani::unwind($unw)]
            pub fn $name() {
                let mut pb = PackageBuilder::new();
                let mut i = 0;
                kani::cover!(true, "CALLING");
                while i < $n {
                    pb.add_element(&ZERO);
                    i += 1;
                }
                let r: Rec<$cap> = Rec::of(&pb);
                let (_v, pn, _f) = decode_pkglen(&r.buf, 1);
                assert!(r.buf[1 + pn] as usize == $n && r.len == 1 + pn + 1 + $n, "C18: package NumElements equals the number of elements that follow");
            }
        };
    }
    builder_n!(q_packagebuilder_255_accepted, 255, 264, 270);
    builder_n!(q_refuse_packagebuilder_256, 256, 264, 270);

    // ------------------------------------------------------------------ name segments (1 byte SegCount)
    macro_rules! path_n {
        ($name:ident, $n:expr, $cap:expr, $unw:expr) => {
            #[kani::proof]
            #[kani::unwind($unw)]
            pub fn $name() {
                let p = Path::verif_from_parts(false, vec![*b"ABCD"; $n]);
                kani::cover!(true, "CALLING");
                let r: Rec<$cap> = Rec::of(&p);
                assert!(r.buf[0] == 0x2f && r.buf[1] as usize == $n && r.len == 2 + 4 * $n, "C18: MultiNamePrefix SegCount equals the number of segments that follow");
            }
        };
    }
    path_n!(q_path_255_accepted, 255, 1030, 1040);
    path_n!(q_refuse_path_256, 256, 1030, 1040);

    // ------------------------------------------------------------------ method argument count (3 bits)
    #[kani::proof]
    #[kani::unwind(16)]
    pub fn q_refuse_method_args_over_7() {
        let args: u8 = kani::any();
        kani::assume(args > 7);
        let ser: bool = kani::any();
        let (p, _r, _s) = sym_path_r::<1>(false);
        kani::cover!(true, "CALLING");
        let r: Rec<12> = Rec::of(&Method::new(p, args, ser, vec![]));
        // 14 PkgLength NameSeg flags
        assert!((r.buf[6] & 7) as u32 == args as u32, "C18: MethodFlags ArgCount equals the argument count given");
    }

    #[kani::proof]
    #[kani::unwind(4)]
    pub fn q_refuse_arg_local_out_of_range() {
        let a: u8 = kani::any();
        let which: bool = kani::any();
        kani::assume(if which { a > 6 } else { a > 7 });
        kani::cover!(true, "CALLING");
        let r: Rec<2> = if which { Rec::of(&Arg(a)) } else { Rec::of(&Local(a)) };
        assert!(r.len == 0, "C18: ArgN / LocalN beyond the last defined object was emitted");
    }

    // ------------------------------------------------------------------ PkgLength >= 2^28
    #[kani::proof]
    #[kani::unwind(6)]
    pub fn q_refuse_pkglength_over_28_bits() {
        let len: usize = kani::any();
        let inc: bool = kani::any();
        // exclusive: len >= 2^28; inclusive: total (len + 4) >= 2^28
        kani::assume(if inc { len >= (1usize << 28) - 4 } else { len >= (1usize << 28) });
        kani::assume(len < usize::MAX - 8);
        kani::cover!(true, "CALLING");
        let v = verif_create_pkg_length(len, inc);
        let mut buf = [0u8; 4];
        let mut i = 0;
        while i < 4 {
            if i < v.len() {
                buf[i] = v[i];
            }
            i += 1;
        }
        let (val, n, _f) = decode_pkglen(&buf, 0);
        assert!(n == v.len() && val == len + if inc { n } else { 0 }, "C18: a PkgLength was emitted that does not decode to the length given");
    }

    #[kani::proof]
    #[kani::unwind(24)]
    pub fn q_refuse_field_width_over_28_bits() {
        let len: usize = kani::any();
        kani::assume(len >= (1usize << 28) && len < usize::MAX - 8);
        let (p, _r, _s) = sym_path_r::<1>(false);
        kani::cover!(true, "CALLING");
        let f = Field::new(p, FieldAccessType::Any, FieldLockRule::NoLock, FieldUpdateRule::Preserve, vec![FieldEntry::Reserved(len)]);
        let r: Rec<20> = Rec::of(&f);
        let (w, _wn, _f) = decode_pkglen(&r.buf, 9);
        assert!(w == len, "C18: a field width was emitted that does not decode to the width given");
    }

    // ------------------------------------------------------------------ PPTT processor node length (1 byte)
    macro_rules! pptt_res {
        ($name:ident, $n:expr, $cap:expr, $unw:expr) => {
            #[kani::proof]
            #[kani::unwind($unw)]
            pub fn $name() {
                use acpi_tables::pptt::*;
                let mut t = PPTT::new([0; 6], [0; 8], 0);
                let h = t.add_cache(CacheNodeBuilder::default().to_node());
                let mut p = ProcessorNode::new(None, 1);
                let mut i = 0;
                while i < $n {
                    p = p.add_cache(&h);
                    i += 1;
                }
                kani::cover!(true, "CALLING");
                let r: Rec<$cap> = Rec::of(&p);
                assert!(r.buf[1] as usize == r.len && r.u32(16) as usize == $n, "C18: processor node length byte equals the bytes emitted");
            }
        };
    }
    pptt_res!(q_pptt_58_resources_accepted, 58, 260, 270);
    pptt_res!(q_refuse_pptt_59_resources, 59, 264, 270);

    // ------------------------------------------------------------------ CEDT CXIMS bitmap count (1 byte)
    macro_rules! cxims_n {
        ($name:ident, $n:expr, $cap:expr, $unw:expr) => {
            #[kani::proof]
            #[kani::unwind($unw)]
            pub fn $name() {
                use acpi_tables::cedt::*;
                let mut x = XorInterleaveMath::new(InterleaveGranularity::Granularity256b);
                let mut i = 0;
                while i < $n {
                    x.add_xormap(0);
                    i += 1;
                }
                kani::cover!(true, "CALLING");
                let r: Rec<$cap> = Rec::of(&x);
                assert!(r.buf[7] as usize == $n && r.u16(2) as usize == r.len, "C18: CXIMS bitmap count byte equals the bitmaps that follow");
            }
        };
    }
    cxims_n!(t_cxims_255_accepted, 255, 2060, 2070);
    cxims_n!(t_refuse_cxims_256, 256, 2064, 2070);

    // ------------------------------------------------------------------ address ranges whose size overflows its width
    macro_rules! range_refuse {
        ($name:ident, $t:ty, $cap:expr, $off_len:expr, $rd:ident) => {
            #[kani::proof]
            #[kani::unwind(52)]
            pub fn $name() {
                let min: $t = kani::any();
                let max: $t = kani::any();
                kani::assume(min > max || (min == 0 && max == <$t>::MAX));
                kani::cover!(true, "CALLING");
                let r: Rec<$cap> = Rec::of(&AddressSpace::new_io(min, max, None));
                // emitted length must be the true size of [min, max]; no such value exists here
                assert!(min <= max && r.$rd($off_len) as u128 == (max as u128 - min as u128 + 1), "C18: an address range whose size is not representable was emitted");
            }
        };
    }
    range_refuse!(q_refuse_word_range, u16, 20, 14, u16);
    range_refuse!(q_refuse_dword_range, u32, 32, 22, u32);
    range_refuse!(q_refuse_qword_range, u64, 48, 38, u64);

    // ------------------------------------------------------------------ SLIT locality count
    #[kani::proof]
    #[kani::unwind(4)]
    pub fn q_refuse_slit_localities_overflow() {
        let n: u32 = kani::any();
        // n*n + 44 does not fit the 32-bit Length
        kani::assume(n > 65535);
        kani::cover!(true, "CALLING");
        let t = acpi_tables::slit::SLIT::new([0; 6], [0; 8], 0, n);
        let _ = &t;
        assert!(false, "C18: a SLIT whose size does not fit the Length field was constructed");
    }
}
