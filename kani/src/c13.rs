//! C13 — the generic table behaves as a byte vector with self-maintaining header.
use crate::common::*;
use acpi_tables::sdt::Sdt;
use acpi_tables::{Aml, AmlSink};

const CAP: usize = 64;

/// reference model: plain byte array + length; Length field rewritten on append, byte 9 recomputed
pub struct Model {
    pub b: [u8; CAP],
    pub n: usize,
}
impl Model {
    fn new(sig: [u8; 4], len: u32, rev: u8, oem: &([u8; 6], [u8; 8], u32)) -> Self {
        let mut e: Exp<CAP> = Exp::new();
        ref_header(&mut e, &sig, len, rev, oem);
        let mut m = Model { b: e.b, n: len as usize };
        m.fix();
        m
    }
    fn fix(&mut self) {
        self.b[9] = 0;
        let mut s = 0u8;
        let mut i = 0;
        while i < CAP {
            if i < self.n {
                s = s.wrapping_add(self.b[i]);
            }
            i += 1;
        }
        self.b[9] = 0u8.wrapping_sub(s);
    }
    fn append(&mut self, d: &[u8]) {
        let mut i = 0;
        while i < d.len() {
            self.b[self.n + i] = d[i];
            i += 1;
        }
        self.n += d.len();
        let l = (self.n as u32).to_le_bytes();
        self.b[4] = l[0];
        self.b[5] = l[1];
        self.b[6] = l[2];
        self.b[7] = l[3];
        self.fix();
    }
    fn write(&mut self, off: usize, d: &[u8]) {
        let mut i = 0;
        while i < d.len() {
            self.b[off + i] = d[i];
            i += 1;
        }
        self.fix();
    }
}

pub mod c13 {
    use super::*;

    fn start(len: u32) -> (Sdt, Model) {
        let sig: [u8; 4] = kani::any();
        let rev: u8 = kani::any();
        let oem = sym_oem();
        (Sdt::new(sig, len, rev, oem.0, oem.1, oem.2), Model::new(sig, len, rev, &oem))
    }

    /// one operation of a concrete class with symbolic operands (write offsets symbolic over every in-range offset)
    fn op(code: u8, t: &mut Sdt, m: &mut Model) {
        match code {
            // typed appends
            0 => { let v: u8 = kani::any(); t.append(v); m.append(&[v]); }
            1 => { let v: u16 = kani::any(); t.append(v); m.append(&v.to_le_bytes()); }
            2 => { let v: u32 = kani::any(); t.append(v); m.append(&v.to_le_bytes()); }
            3 => { let v: u64 = kani::any(); t.append(v); m.append(&v.to_le_bytes()); }
            // slice appends of length 0..=3
            4 => { t.append_slice(&[]); m.append(&[]); }
            5 => { let d: [u8; 1] = kani::any(); t.append_slice(&d); m.append(&d); }
            6 => { let d: [u8; 3] = kani::any(); t.append_slice(&d); m.append(&d); }
            // typed writes at any in-range offset
            10 => { let v: u8 = kani::any(); let o: usize = kani::any(); kani::assume(o < m.n); t.write_u8(o, v); m.write(o, &[v]); }
            11 => { let v: u16 = kani::any(); let o: usize = kani::any(); kani::assume(o <= m.n - 2); t.write_u16(o, v); m.write(o, &v.to_le_bytes()); }
            12 => { let v: u32 = kani::any(); let o: usize = kani::any(); kani::assume(o <= m.n - 4); t.write_u32(o, v); m.write(o, &v.to_le_bytes()); }
            13 => { let v: u64 = kani::any(); let o: usize = kani::any(); kani::assume(o <= m.n - 8); t.write_u64(o, v); m.write(o, &v.to_le_bytes()); }
            // slice writes of length 0, 2, 3
            14 => { let o: usize = kani::any(); kani::assume(o <= m.n); t.write_bytes(o, &[]); m.write(o, &[]); }
            15 => { let d: [u8; 2] = kani::any(); let o: usize = kani::any(); kani::assume(o <= m.n - 2); t.write_bytes(o, &d); m.write(o, &d); }
            16 => { let d: [u8; 3] = kani::any(); let o: usize = kani::any(); kani::assume(o <= m.n - 3); t.write_bytes(o, &d); m.write(o, &d); }
            // sink interface
            20 => { let v: u8 = kani::any(); (t as &mut dyn AmlSink).byte(v); m.append(&[v]); }
            21 => { let v: u16 = kani::any(); (t as &mut dyn AmlSink).word(v); m.append(&[v.to_le_bytes()[0]]); m.append(&[v.to_le_bytes()[1]]); }
            22 => { let v: u32 = kani::any(); (t as &mut dyn AmlSink).dword(v); let b = v.to_le_bytes(); m.append(&b); }
            23 => { let d: [u8; 2] = kani::any(); (t as &mut dyn AmlSink).vec(&d); m.append(&d); }
            _ => { let v: u64 = kani::any(); (t as &mut dyn AmlSink).qword(v); let b = v.to_le_bytes(); m.append(&b); }
        }
    }

    fn finish(t: &Sdt, m: &Model) {
        let s = t.as_slice();
        let mut same = s.len() == m.n;
        let mut i = 0;
        while i < CAP {
            if i < m.n && i < s.len() && s[i] != m.b[i] {
                same = false;
            }
            i += 1;
        }
        let r: Rec<CAP> = Rec::of(t);
        verdicts! {
            "C13: contents equal a plain byte vector subjected to the same appends and writes (Length rewritten, checksum recomputed)": same,
            "C13: len() equals the number of bytes": t.len() == m.n && !t.is_empty(),
            "C13: image sums to 0": r.buf[9].wrapping_add(r.sum_skip9()) == 0,
            "C13: serialisation through Aml equals as_slice()": r.len == s.len() && r.eq_bytes(s, s.len()),
        }
        kani::cover!(true, "REACHED");
    }

    macro_rules! seq13 {
        ($name:ident, $len:expr, [$($op:expr),*]) => {
            #[kani::proof]
            #[kani::unwind(70)]
            pub fn $name() {
                let (mut t, mut m) = start($len);
                $( op($op, &mut t, &mut m); )*
                finish(&t, &m);
            }
        };
    }
    seq13!(q_new_36, 36, []);
    seq13!(q_new_37, 37, []);
    seq13!(q_new_44, 44, []);
    seq13!(q_append_u8_u32, 36, [0, 2]);
    seq13!(q_append_u16_u64, 37, [1, 3]);
    seq13!(q_append_slices, 40, [4, 5, 6]);
    seq13!(q_write_u8, 36, [10]);
    seq13!(q_write_u16, 40, [11]);
    seq13!(q_write_u32, 40, [12]);
    seq13!(q_write_u64, 44, [13]);
    seq13!(q_write_bytes, 40, [14, 16]);
    seq13!(q_append_then_write, 36, [2, 12]);
    seq13!(q_write_then_append, 40, [11, 1]);
    seq13!(q_sink_byte_word, 36, [20, 21]);
    seq13!(q_sink_dword_vec_write, 36, [22, 23, 15]);
    seq13!(q_write_write, 44, [10, 12]);
    seq13!(q_write_u32_then_empty_append, 40, [12, 4]);
    seq13!(q_write_bytes_then_sink_byte, 37, [16, 20]);
    seq13!(t_sink_qword_write_u64, 36, [24, 13]);
    seq13!(t_append_write_append, 37, [3, 16, 0]);
    seq13!(t_write_append_slice_write, 40, [12, 6, 11]);
    seq13!(t_sink_write_sink, 44, [21, 15, 20]);
    seq13!(t_append_u64_u64_write_u32, 36, [3, 3, 12]);
    seq13!(t_slice_empty_write_empty, 36, [4, 14, 5]);

    /// writes that would extend past the end are refused
    macro_rules! refuse13 {
        ($name:ident, $len:expr, $w:expr) => {
            #[kani::proof]
            #[kani::unwind(70)]
            pub fn $name() {
                let (mut t, _m) = start($len);
                let o: usize = kani::any();
                // offset + size > len, including offsets near usize::MAX
                kani::assume(o > $len - $w);
                kani::cover!(true, "CALLING");
                match $w {
                    1 => t.write_u8(o, kani::any()),
                    2 => t.write_u16(o, kani::any()),
                    4 => t.write_u32(o, kani::any()),
                    8 => t.write_u64(o, kani::any()),
                    _ => { let d: [u8; 3] = kani::any(); t.write_bytes(o, &d) }
                }
                assert!(t.len() > 100000, "C13: a write extending past the end was accepted");
            }
        };
    }
    refuse13!(q_refuse_write_u8_past_end, 40, 1);
    refuse13!(q_refuse_write_u16_past_end, 40, 2);
    refuse13!(q_refuse_write_u32_past_end, 36, 4);
    refuse13!(q_refuse_write_u64_past_end, 44, 8);
    refuse13!(q_refuse_write_bytes_past_end, 37, 3);

    macro_rules! refuse_new {
        ($name:ident, $l:expr) => {
            #[kani::proof]
            #[kani::unwind(70)]
            pub fn $name() {
                kani::cover!(true, "CALLING");
                let t = Sdt::new(*b"TEST", $l, 1, [0; 6], [0; 8], 0);
                assert!(t.len() > 100000, "C13: a declared length below the header size was accepted");
            }
        };
    }
    refuse_new!(q_refuse_new_len_0, 0);
    refuse_new!(q_refuse_new_len_35, 35);
}
