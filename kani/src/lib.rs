//! Kani harnesses for rust-vmm/acpi_tables. See /verif/DESIGN.md.
//! Naming: module path `<family>::cNN::q_*` (quick + thorough) / `t_*` (thorough only).
#![allow(dead_code)]
#![allow(clippy::all)]

#[cfg(kani)]
#[macro_use]
pub mod common;

#[cfg(kani)]
#[macro_use]
pub mod kinds;
#[cfg(kani)]
#[macro_use]
pub mod tables;
#[cfg(kani)]
pub mod fixed;

#[cfg(all(kani, feature = "c01"))]
pub mod c01;
#[cfg(all(kani, feature = "c02"))]
pub mod c02;
#[cfg(all(kani, feature = "c03"))]
pub mod c03;
#[cfg(all(kani, feature = "c04"))]
pub mod c04;
#[cfg(all(kani, feature = "c17"))]
pub mod c17;
#[cfg(all(kani, feature = "c07"))]
pub mod c07;
#[cfg(all(kani, feature = "c08"))]
pub mod c08;
#[cfg(all(kani, feature = "c06"))]
pub mod c06;
#[cfg(all(kani, feature = "c09"))]
pub mod c09;
#[cfg(all(kani, feature = "c10"))]
pub mod c10;
#[cfg(all(kani, feature = "c11"))]
pub mod c11;
#[cfg(all(kani, feature = "c15"))]
pub mod c15;
#[cfg(all(kani, feature = "c16"))]
pub mod c16;
#[cfg(all(kani, feature = "c05"))]
pub mod c05;
#[cfg(all(kani, feature = "c12"))]
pub mod c12;
#[cfg(all(kani, feature = "c13"))]
pub mod c13;
#[cfg(all(kani, feature = "c14"))]
pub mod c14;
#[cfg(all(kani, feature = "c18"))]
pub mod c18;
