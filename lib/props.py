"""Per-property configuration of the runner. Bounds quoted in the evidence come from here
and from the harness names (shape suffixes)."""
import re

COMMON_ASSUME = [
    "Kani models the dev profile (overflow checks on); profile-equivalence lemma of DESIGN.md 2.5 for release",
    "hooks compiled in with --cfg rust_vmm_acpi_tables_verif are pure pass-throughs (MANIFEST.hooks)",
    "CBMC 6.11 / cadical / z3 4.8.12 are sound; --max-field-sensitivity-array-size 1024",
    "no stubs of crate code; allocation cannot fail (--no-malloc-may-fail, Kani default)",
    "CBMC's pointer / array-bounds instrumentation is off (what Kani's --no-memory-safety-checks does): the crate has no unsafe code; Rust-level bounds checks, overflow checks and asserts are kept",
    "cargo kani is used for code generation only (--only-codegen --no-assertion-reach-checks); goto-cc / goto-instrument / cbmc are run by lib/runner.py with Kani 0.68's own command lines",
]

PROPS = {}
HOOK_COMMITS = ["d73a209"]


def prop(pid, **kw):
    kw.setdefault("assumptions", COMMON_ASSUME)
    kw.setdefault("level", "model_checking")
    PROPS[pid] = kw


prop("C17",
     bounds="all 256 accumulator states x all 256 byte values for add/sub/value; slices of concrete length "
            "0..=10, 64 and 260 with symbolic bytes, plus append of 1100 x 0xFF from every state (1100 symbolic, all-0xFF and alternating bytes with append+delete in the thorough tier); sink entry points with symbolic operands; symbolic programs of k<=3 (quick) / "
            "k<=5 (thorough) operations chosen among add/sub/append/delete/sink.vec/append+delete with slices <=3 bytes",
     outside="slices longer than 260 bytes (quick) / 1100 bytes (thorough) and lengths in between that are not listed; operation sequences longer than 5",
     explanation="Checksum is loop-over-slice arithmetic on one u8; every state is reached by add(s) from default.",
     level_text="Bounded model checking of the compiled Checksum code: for every accumulator state and every operand "
                "value the SAT/SMT back end shows the mod-256 sum, inverse and value() laws; symbolic operation programs "
                "up to the stated length. Right level: the object is one u8 and loop-over-slice arithmetic, so the solver "
                "covers the full 256x256 space the tests sample.",
     level_note="Trusted: Kani/CBMC translation of MIR, cadical/z3. Slices bounded as listed, programs to 5 operations. Beyond 260 bytes the quick tier has one concrete content (1100 x 0xFF, the heaviest input for a lane-wise sum; seeded change C17_m1); other contents at that length are thorough-tier.",
     mir=True, jobs=12, timeout=600, fs_array=4096)

K = "Kani 0.68 compiles the crate and the harness to a goto program; CBMC 6.11 unwinds it to the stated bound (unwinding assertions on) and the SAT/SMT back end decides every check for all symbolic values at once."
TRUST = "Trusted: kani-compiler's MIR->goto translation, CBMC, cadical/z3; memory-safety instrumentation is off (the crate is 100% safe Rust); allocation never fails; hooks are pass-throughs."

prop("C01",
     level_text="Bounded model checking of the compiled table builders: every table type, constructor arguments symbolic, enumerated add sequences (<= 3 quick / <= 8 thorough entries) with symbolic entry contents, byte sum of what a byte-only sink receives asserted after construction and after every add. " + K,
     level_note=TRUST + " History harnesses keep the OEM header concrete except one byte that ranges the running sum over all 256 states; constructor-only harnesses have all header fields symbolic. Count/length carries at 256/65536 entries need real entries and are outside the quick tier.",
     bounds="20 checksummed structures + RSDP; histories: empty, every kind at least once, mixed pairs/triples (quick), runs to 8 (thorough); variable-size entries with 0..=3 sub-elements; builder chains k<=2 (quick) / 4 (thorough)",
     outside="more than 8 entries; the 256th entry (count carry) and tables >= 64 KiB; RQSC controllers with >= 2 resources; all OEM bytes symbolic together with delta updates",
     jobs=12, timeout=900, mir=None)
prop("C02",
     level_text="Same harness family as C01 with the assertion 'u32 at offset 4 == number of bytes received by the sink' (RSDP: offset 20 == 36; FACS: 64) after construction and after every add; all header fields and entry contents symbolic. " + K,
     level_note=TRUST,
     bounds="as C01; every fixed-size table (SPCR, BERT, TCPA x2, TPM2 x2, FADT, RQSC empty) has its own harness",
     outside="more than 8 entries; u32 length overflow (>= 4 GiB)", jobs=14, timeout=900, mir=None)
prop("C03",
     level_text="A harness-side specification walk (first-entry offset and length-field position/width per table from the ACPI/CXL/RISC-V specs) over the emitted image of every enumerated add sequence; visited type codes, count fields, per-entry element counts, array offsets and string lengths compared with what was added. " + K,
     level_note=TRUST + " The walker is written from the specifications, not from the crate.",
     bounds="13 tables with variable bodies; sequences as C01; sub-elements 0..=3; ISA strings of length 0,1,2,3,6; platform names 0,3,4; plus 38 concrete twins (fx::q_fx_*: every kind twice with identical all-zero / all-one entries, OEM symbolic) as a net for changes that make the entry count depend on entry values",
     outside="more than 3 sub-elements per entry; strings longer than 6; RQSC with >= 2 resources", jobs=14, timeout=900, mir=None)
prop("C04",
     level_text="Whole-image comparison with specification-derived reference encoders (kinds.rs / fixed.rs) for every table header form and every entry kind, every scalar symbolic over its full type, every enum over all variants, optional parts present and absent. " + K,
     level_note=TRUST + " Reference layouts: ACPI 6.5/6.6, CXL 3.0, TCG ACPI, SPCR r4, RISC-V RHCT/RQSC, VIOT; RIMT per the crate's golden tests. Not demanded: header Revision bytes, FACS version, FADT minor version, TCPA spec-revision byte order.",
     bounds="fixed shapes (see C01), all values; plus 38 concrete twins (fx::q_fx_*: every entry kind twice with identical all-zero / all-one entries, OEM fields symbolic, whole image compared) for changes that merge, skip or reorder entries by value", outside="shapes beyond the enumerated ones; value-dependent entry handling for entry values other than all-zero / all-one", jobs=14, timeout=900, mir=None)
prop("C05",
     level_text="Handles are opaque, so they are observed through the reference fields of later nodes built from them; every enumerated sequence uses every earlier handle and the harness asserts field == specification offset of the target node and target type code, after every add. " + K,
     level_note=TRUST,
     bounds="PPTT, RHCT, RIMT, VIOT; sequences of 2..6 nodes with every node kind before/between/after handle-returning nodes",
     outside="sequences longer than 6 nodes; handle counters past 65535 (C18)", jobs=14, timeout=900, mir=None)
prop("C06",
     level_text="Per-constructor production lemmas (ACPI 6.5 20.2) around opaque symbolic children of concrete length: opcode order, PkgLength closing on the last child, operand order, flag bits over all enum variants; all finite trees follow by structural induction on the constructors. " + K,
     level_note=TRUST + " The induction step itself (children correct by hypothesis, PkgLength by C07) is an argument, not a query.",
     bounds="all exported constructors; 0..=3 children of 0..=3 bytes; 1- and 2-segment names, rooted and not; names through the Path hook",
     outside="bodies at the 63/64 boundary for ten constructors only; the 4095/4096 boundary is not materialised for C06 (tried: symbolic execution > 2400 s; the encoder itself is decided for every length by C07); 2^20 bodies are not materialised", jobs=14, timeout=900, mir=None)
prop("C07",
     level_text="The private encoder is driven through a pass-through hook with the length itself symbolic (one query covers all 2^28 lengths x both forms); decoded value, lead-byte format and minimality asserted; Field/Named/Reserved and one small-body harness per length-prefixed object kind tie it to the public API. Engine M re-derives the same statement from rustc's MIR (dev and release) with z3, cross-checked by cvc5. " + K,
     level_note=TRUST + " Engine M trusts the MIR text dump and my 400-line translator, validated on the crate's own test vectors.",
     bounds="all len with total < 2^28, both forms; call sites: 25 harnesses over every length-prefixed object kind (Scope, Device, Method, PowerResource, If, Else, While, Package, PackageBuilder, VarPackage, Buffer term, BufferData 0..=3 bytes, ResourceTemplate) with 0..=2 symbolic-content children, total <= 63", outside="lengths >= 2^28 (C18); call-site bodies beyond 63 bytes are C06 (62/63 boundary) and C10/C15 (to 260 bytes)", jobs=8, timeout=600, mir=True,
     technique="bounded model checking (Kani/CBMC) + MIR->SMT-LIB2 bit-vector encoding decided by z3/cvc5")
prop("C08",
     level_text="One query per integer type covers the whole type: emitted bytes == narrowest reference encoding and decode back; cross-type equality; BufferData size prefix. Engine M: all paths of the five to_aml_bytes impls from MIR, dev and release. " + K,
     level_note=TRUST, bounds="u8, u16, u32, u64, usize: all values", outside="nothing within the integer encoder; embedded uses at 255/256 are thorough-tier",
     jobs=12, timeout=600, mir=True, technique="bounded model checking (Kani/CBMC) + MIR->SMT-LIB2 bit-vector encoding decided by z3/cvc5")
prop("C09",
     level_text="Encoding half decided symbolically (segments over all byte values through the Path hook, counts 1..=4 quick, 5/16/254/255 thorough); scanning half (Path::new) executed on enumerated concrete strings including every malformed-segment position. " + K,
     level_note=TRUST + " No universality over string contents is claimed for the scanner (DESIGN 2.6).",
     bounds="segment counts 1,2,3,4 (+5,16,254,255); scanner: 51 enumerated strings < 16 bytes (one wrong-length segment at every position, several wrong-length segments filling whole strides, leading / doubled / trailing separators, root only)",
     outside="Path::new over arbitrary contents (symbolic contents of even 4 bytes: no verdict, 5 GB); strings >= 16 bytes", jobs=14, timeout=600, mir=None)
prop("C10",
     level_text="Reference encoder per descriptor kind with all arguments symbolic inside the documented domain; template lemma with opaque children; walk of real-descriptor templates by their own length fields; width boundaries via concrete-size blobs. " + K,
     level_note=TRUST, bounds="7 descriptor kinds x 3 address widths; templates of 0..=3 descriptors; payloads 56..=60 and 253..=255",
     outside="templates with more than 3 descriptors", jobs=14, timeout=600, mir=None)
prop("C11",
     level_text="Symbolic option programs: k calls, each a symbolic choice among the structure's option builders with symbolic arguments; flag field == OR of specification bits, every other byte unchanged; FADT via a one-step harness from an arbitrary prior flags value (unbounded in history). " + K,
     level_note=TRUST, bounds="k = 2..3 (quick), up to 9 (thorough)", outside="programs longer than k", jobs=14, timeout=600, mir=None)
prop("C12",
     level_text="SLIT n<=3 with k<=2 assignments (n=4, k=2 thorough) and HMAT shapes up to 3x3 including single row/column with k<=2 (3 thorough) assignments with symbolic in-range indices and values (diagonal, mirrored, repeated included), compared with an array model; checksum and length asserted. " + K,
     level_note=TRUST, bounds="see text", outside="SLIT n > 4 or more than 2 assignments at n >= 3 (k = 3 at n = 3, 4 was tried: no verdict from either back end in 2400 s / 4800 s); HMAT more than 3 assignments", jobs=14, timeout=600, mir=None)
prop("C13",
     level_text="Operation sequences (2 quick / 3 thorough) over {typed append, slice append, typed write, slice write, sink byte/word/dword/qword/vec} with symbolic values and write offsets symbolic over every in-range offset, against an array+length model with Length rewritten and byte 9 recomputed; out-of-range writes must be refused. " + K,
     level_note=TRUST + " 'Unchanged after a refused write' cannot be observed under Kani's abort-on-panic model.",
     bounds="initial lengths 36, 37, 40, 44; sequences of <= 3 operations", outside="longer sequences; symbolic initial length", jobs=14, timeout=600, mir=None)
prop("C14",
     level_text="Each object kind is serialised into the built-in vector sink (twice), a byte-only sink, a sink overriding all five entry points, the checksum sink, the generic-table sink and the package-builder sink; the concatenations, the byte sum and the raw in-memory form are compared. " + K,
     level_note=TRUST, bounds="32 table-entry kinds, 20 raw-form structures, 15 AML constructors, 3 whole tables; all argument values",
     outside="objects not in the enumerated list", jobs=14, timeout=600, mir=None)
prop("C15",
     level_text="Scope::raw vs Scope::new with a symbolic payload of concrete size swept across the first PkgLength boundary; PackageBuilder vs Package; &str vs String; usize vs u64. " + K,
     level_note=TRUST, bounds="payload sizes 0,1,4,57..=60 (quick), +2,16,48,49,56,61,80,200 (thorough)",
     outside="sizes near 4096 and 2^20 (create_pkg_length itself is covered for all sizes by C07)", jobs=14, timeout=600, mir=None)
prop("C16",
     level_text="All 26^3*16^4 EISA ids in one query (symbolic characters under the validity predicate, decompression by the specification's rule); hex-pair mapping for all characters through the hook; Uuid::new placement and refusals on concrete strings. " + K,
     level_note=TRUST + " Universality over digits through Uuid::new itself is the composition of the two halves (DESIGN 2.6).",
     bounds="see text", outside="Uuid::new over arbitrary contents", jobs=14, timeout=600, mir=None)


prop("C18",
     level_text="Three parts. (1) Refusal harnesses (Kani/CBMC, dev semantics) per caller-controlled field: the call with the oversized count/size must panic inside the crate on every path, or return bytes whose count/length field agrees with the content (255 path segments and 255 CXIMS entries accepted, a 3-element package accepted -- 255 elements was tried and is out of reach --, 256 refused, symbolic args > 7, symbolic lengths >= 2^28, 59 private resources, unrepresentable ranges, SLIT size). (2) Engine M on *release* MIR for the sites whose only dev-profile refusal is an overflow check (address ranges): 'does the function return with a wrong length' must be unsat; a sat witness is replayed with cargo test --release. (3) Narrowing-cast census from MIR, informational. " + K,
     level_note=TRUST + " Sites whose witness needs >= 64 KiB of elements (ISA strings, SMBIOS handles, RIMT wires/mappings, VIOT/RQSC 16-bit accumulators) cannot be materialised in CBMC: they are pinned by the native demonstrations in findings/demo (cargo test, dev and release), not by a solver query.",
     bounds="see text; PkgLength/field widths: all len in [2^28, usize::MAX-8]; method args: all of 8..=255",
     outside="16-bit fields fed by >= 65536 real elements (native demos only); u32 table lengths (>= 4 GiB)",
     jobs=14, timeout=600, mir=True,
     technique="bounded model checking (Kani/CBMC) of refusal harnesses + MIR->SMT-LIB2 (release semantics) decided by z3")


def bounds_of(prop_id, short):
    """human-readable bound of one harness, derived from its name suffixes"""
    leaf = short.split("::")[-1]
    out = {"tier": "quick" if leaf.startswith("q_") else "thorough-only"}
    m = re.search(r"_(\d+)$", leaf)
    if m:
        out["size_param"] = int(m.group(1))
    return out
