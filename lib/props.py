"""Per-property configuration of the runner. Bounds quoted in the evidence come from here
and from the harness names (shape suffixes)."""
import re

COMMON_ASSUME = [
    "Kani models the dev profile (overflow checks on); profile-equivalence lemma of DESIGN.md 2.5 for release",
    "hooks compiled in with --cfg rust_vmm_acpi_tables_verif are pure pass-throughs (MANIFEST.hooks)",
    "CBMC 6.11 / cadical / z3 4.8.12 are sound; --max-field-sensitivity-array-size 1024",
    "no stubs of crate code; allocation cannot fail (--no-malloc-may-fail, Kani default)",
]

PROPS = {}
HOOK_COMMITS = ["d73a209"]


def prop(pid, **kw):
    kw.setdefault("assumptions", COMMON_ASSUME)
    kw.setdefault("level", "model_checking")
    PROPS[pid] = kw


prop("C17",
     bounds="all 256 accumulator states x all 256 byte values for add/sub/value; slices of concrete length "
            "0..=10 with symbolic bytes; sink entry points with symbolic operands; symbolic programs of k<=3 (quick) / "
            "k<=5 (thorough) operations chosen among add/sub/append/delete/sink.vec/append+delete with slices <=3 bytes",
     outside="slices longer than 10 bytes; operation sequences longer than 5",
     explanation="Checksum is loop-over-slice arithmetic on one u8; every state is reached by add(s) from default.",
     level_text="Bounded model checking of the compiled Checksum code: for every accumulator state and every operand "
                "value the SAT/SMT back end shows the mod-256 sum, inverse and value() laws; symbolic operation programs "
                "up to the stated length. Right level: the object is one u8 and loop-over-slice arithmetic, so the solver "
                "covers the full 256x256 space the tests sample.",
     level_note="Trusted: Kani/CBMC translation of MIR, cadical/z3. Slices bounded to 10 bytes, programs to 5 operations.",
     mir=None, jobs=12, timeout=300)

prop("C07", claimed=False, jobs=8, timeout=600, mir=None, level_text="", level_note="")
prop("C08", claimed=False, jobs=12, timeout=600, mir=None, level_text="", level_note="")

prop("C06", claimed=False, jobs=14, timeout=900, mir=None, level_text="", level_note="")

RQSC_COST = ("RQSC multi-resource / multi-controller byte-sum query exceeds 30 min on both back ends (values pass "
             "through nested Vec copies); RQSC recomputes its checksum from scratch on every add, covered at 0-1 "
             "resources; the same sequences run for C02-C04")
prop("C01", claimed=False, jobs=12, timeout=900, mir=None, level_text="", level_note="",
     skip={"q_rqsc_c2mem_acpi": RQSC_COST, "q_rqsc_c1pci_c0_c1vendor": RQSC_COST, "t_rqsc_c2vendor_cache_c2pci_mem": RQSC_COST})
prop("C02", claimed=False, jobs=14, timeout=900, mir=None, level_text="", level_note="")
prop("C03", claimed=False, jobs=14, timeout=900, mir=None, level_text="", level_note="")
prop("C04", claimed=False, jobs=14, timeout=900, mir=None, level_text="", level_note="")

for _p in ("C09", "C10", "C11", "C15", "C16"):
    prop(_p, claimed=False, jobs=14, timeout=600, mir=None, level_text="", level_note="")


def bounds_of(prop_id, short):
    """human-readable bound of one harness, derived from its name suffixes"""
    leaf = short.split("::")[-1]
    out = {"tier": "quick" if leaf.startswith("q_") else "thorough-only"}
    m = re.search(r"_(\d+)$", leaf)
    if m:
        out["size_param"] = int(m.group(1))
    return out
