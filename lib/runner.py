"""Runner: builds the Kani harness crate against /repo's current working tree, runs the
harnesses of one property under a solver portfolio, runs the MIR->SMT engine where the
property has one, replays counterexamples natively, writes the evidence file.

Verdict rules (DESIGN.md section 1):
  * a harness is green only on VERIFICATION:- SUCCESSFUL with zero failed checks and its
    vacuity cover (REACHED / CALLING) satisfied;
  * timeout, out-of-memory, CBMC abort, missing verdict => inconclusive for that back end,
    the alternate back end is tried, and if that is inconclusive too the run exits 2;
  * an unwinding-assertion failure is a broken bound (exit 2), never a pass;
  * a failed check is a candidate violation; it is replayed natively (Kani concrete
    playback, dev and release) and only a reproducing one prints VIOLATION.
"""
import fnmatch
import json
import os
import re
import shutil
import subprocess
import sys
import time

ROOT = os.path.normpath(os.path.join(os.path.dirname(os.path.abspath(__file__)), ".."))
KANI_DIR = os.environ.get("VERIF_KANI_DIR") or os.path.join(ROOT, "kani")  # override only for scratch experiments
REPO = os.environ.get("VERIF_REPO") or "/repo"  # override only for sandboxed seeded-change runs
GUARD = "--cfg rust_vmm_acpi_tables_verif"
MEM_KB = 20_000_000  # ulimit -v per process

sys.path.insert(0, os.path.join(ROOT, "lib"))
import props as P  # noqa: E402


def log(*a):
    print(*a, flush=True)


def kani_env():
    env = dict(os.environ)
    env["RUSTFLAGS"] = GUARD
    env["CARGO_NET_OFFLINE"] = "true"
    env.pop("RUSTUP_TOOLCHAIN", None)
    return env


def sync_lock():
    """harness crate builds with /repo's lock file (offline; same zerocopy)."""
    src = os.path.join(REPO, "Cargo.lock")
    dst = os.path.join(KANI_DIR, "Cargo.lock")
    if not os.path.exists(dst):
        if os.path.exists(src):
            # keep only what cargo needs; cargo rewrites it for the harness crate
            shutil.copy(src, dst)


class HarnessResult:
    def __init__(self, name):
        self.name = name
        self.status = None  # 'SUCCESSFUL' | 'FAILED' | None
        self.failed = []  # list of dict(desc,file,line,func)
        self.covers_sat = None
        self.covers_total = None
        self.covers_unreach = 0
        self.checks_total = None
        self.checks_failed = None
        self.time_s = None
        self.solver = None
        self.note = ""
        self.raw = []
        self.stats = {}
        self.covers_named = []
        self.cbmc_verdict = None
        self.unwind = None

    @property
    def short(self):
        return self.name.split("::", 1)[1] if "::" in self.name else self.name


RE_CHECKING = re.compile(r"^(?:Thread (\d+): )?Checking harness (\S+?)\.\.\.")
RE_THREAD = re.compile(r"^Thread (\d+): ?(.*)$")
RE_RES = re.compile(r"\*\* (\d+) of (\d+) failed")
RE_COV = re.compile(r"\*\* (\d+) of (\d+) cover properties satisfied(?: \((\d+) unreachable\))?")
RE_FILE = re.compile(r'^\s*File: "([^"]*)", line (\d+), in (.*)$')


def parse_terse(text):
    """Parse `cargo kani --output-format terse -j N` output into {harness: HarnessResult}."""
    res = {}
    cur_of_thread = {}
    active = None  # HarnessResult currently receiving block lines
    last_failed = None
    for line in text.splitlines():
        m = RE_CHECKING.match(line)
        if m:
            th = m.group(1) or "0"
            h = HarnessResult(m.group(2))
            res[h.name] = h
            cur_of_thread[th] = h
            active = None
            continue
        m = RE_THREAD.match(line)
        if m and m.group(1) in cur_of_thread:
            active = cur_of_thread[m.group(1)]
            rest = m.group(2)
            if rest:
                active.raw.append(rest)
                line = rest
            else:
                continue
        if line.startswith("VERIFICATION RESULT:") and active is None and len(cur_of_thread) == 1:
            active = list(cur_of_thread.values())[0]
        if active is None:
            continue
        active.raw.append(line)
        m = RE_RES.search(line)
        if m:
            active.checks_failed = int(m.group(1))
            active.checks_total = int(m.group(2))
            continue
        m = RE_COV.search(line)
        if m:
            active.covers_sat = int(m.group(1))
            active.covers_total = int(m.group(2))
            active.covers_unreach = int(m.group(3) or 0)
            continue
        if line.startswith("Failed Checks:"):
            last_failed = {"desc": line[len("Failed Checks:"):].strip(), "file": "", "line": 0, "func": ""}
            active.failed.append(last_failed)
            continue
        m = RE_FILE.match(line)
        if m and last_failed is not None:
            last_failed["file"] = m.group(1)
            last_failed["line"] = int(m.group(2))
            last_failed["func"] = m.group(3)
            continue
        if line.startswith("VERIFICATION:- "):
            active.status = line.split(":- ", 1)[1].split()[0].strip()
            continue
        m = re.match(r"Verification Time: ([0-9.]+)s", line)
        if m:
            active.time_s = float(m.group(1))
            active = None
            last_failed = None
            continue
        if "timed out" in line.lower() or "CBMC failed" in line or "out of memory" in line.lower():
            active.note += line.strip() + "; "
    return res


class MemWatch:
    """Memory guard: `ulimit -v` cannot be used (it also caps the multi-threaded kani driver, which then
    aborts), so solver processes are watched instead: any cbmc/z3/cvc5 process above PER_PROC_KB resident,
    or the largest one when together they exceed TOTAL_KB, is killed. A killed solver shows up as
    'CBMC failed' => inconclusive for that back end, never as success."""
    PER_PROC_KB = 14_000_000
    TOTAL_KB = 48_000_000

    def __enter__(self):
        import threading
        self.stop = threading.Event()
        self.killed = []
        self.t = threading.Thread(target=self.loop, daemon=True)
        self.t.start()
        return self

    def __exit__(self, *a):
        self.stop.set()
        self.t.join(timeout=5)

    def loop(self):
        while not self.stop.wait(2.0):
            procs = []
            for pid in os.listdir("/proc"):
                if not pid.isdigit():
                    continue
                try:
                    comm = open("/proc/%s/comm" % pid).read().strip()
                    if comm not in ("cbmc", "z3", "cvc5", "kissat"):
                        continue
                    rss = 0
                    for line in open("/proc/%s/status" % pid):
                        if line.startswith("VmRSS:"):
                            rss = int(line.split()[1])
                    procs.append((rss, int(pid)))
                except Exception:
                    continue
            total = sum(r for r, _ in procs)
            procs.sort(reverse=True)
            for rss, pid in procs:
                if rss > self.PER_PROC_KB or total > self.TOTAL_KB:
                    try:
                        os.kill(pid, 9)
                        self.killed.append((pid, rss))
                        total -= rss
                    except Exception:
                        pass


# ------------------------------------------------------------------ own CBMC driver
# `cargo kani` is used for code generation only (kani-compiler: Rust MIR -> goto program per harness).
# The link / instrument / cbmc steps are then run here with exactly the command lines Kani 0.68 uses
# (captured with --verbose), because Kani's driver parses CBMC's verbosity-9 JSON stream message by
# message: on these harnesses that costs 4-5x the CBMC time and tens of GB in the driver process.

KANI_HOME = os.path.expanduser("~/.kani/kani-0.68.0")
KANI_LIB_C = os.path.join(KANI_HOME, "library", "kani", "kani_lib.c")
CBMC_BASE = ["--no-malloc-may-fail", "--no-undefined-shift-check", "--no-signed-overflow-check",
             "--no-bounds-check", "--no-pointer-check",  # Kani's --no-memory-safety-checks (crate is 100% safe Rust)
             "--nan-check", "--no-self-loops-to-assumptions", "--no-pointer-primitive-check",
             "--object-bits", "16", "--slice-formula"]


def build_goto(feature, target_dir):
    """kani-compiler run over the harness crate + /repo (path dependency). The harness crate's own
    build output is wiped first so that the goto programs used are always the ones just generated."""
    stale = os.path.join(target_dir, "kani", "x86_64-unknown-linux-gnu", "debug", "build", "acpi_verif")
    shutil.rmtree(stale, ignore_errors=True)
    os.makedirs(target_dir, exist_ok=True)
    cmd = ["cargo", "kani", "--features", feature, "--target-dir", target_dir, "--only-codegen",
           "--no-assertion-reach-checks"]
    t0 = time.time()
    p = subprocess.run(cmd, cwd=KANI_DIR, env=kani_env(), stdout=subprocess.PIPE, stderr=subprocess.STDOUT, text=True)
    metas = []
    for root, _d, files in os.walk(stale):
        for f in files:
            if f.endswith(".kani-metadata.json"):
                metas.append(os.path.join(root, f))
    if p.returncode != 0 or len(metas) != 1:
        return None, p.stdout, time.time() - t0
    md = json.load(open(metas[0]))
    return md["proof_harnesses"], p.stdout, time.time() - t0


def sh(cmd, **kw):
    return subprocess.run(cmd, stdout=subprocess.PIPE, stderr=subprocess.STDOUT, text=True, **kw)


RE_PROP = re.compile(r"^\[(.+?)\] (?:line (\d+) )?(.*)$")
RE_HDR = re.compile(r"^(?:(\S.*?) )?function (.+)$")
STATUSES = ("SUCCESS", "FAILURE", "UNKNOWN", "ERROR")


def parse_cbmc_text(text, h):
    """Plain-text CBMC output -> fills HarnessResult h."""
    in_results = False
    cur_file, cur_fn = "", ""
    pending = None
    props = []
    for line in text.splitlines():
        if line.startswith("Runtime Symex:"):
            h.stats["runtime_symex_s"] = float(line.split(":")[1].strip().rstrip("s"))
        elif line.startswith("Runtime Solver:"):
            h.stats["runtime_solver_s"] = h.stats.get("runtime_solver_s", 0.0) + float(line.split(":")[1].strip().rstrip("s"))
        elif line.startswith("Runtime decision procedure:"):
            h.stats["runtime_decision_procedure_s"] = h.stats.get("runtime_decision_procedure_s", 0.0) + float(line.split(":")[1].strip().rstrip("s"))
        elif line.startswith("size of program expression:"):
            h.stats["size_program_expression"] = int(line.split(":")[1].split()[0])
        elif line.startswith("Generated ") and "VCC" in line:
            m = re.match(r"Generated (\d+) VCC\(s\), (\d+) remaining", line)
            if m:
                h.stats["vccs_generated"] = int(m.group(1))
                h.stats["vccs_remaining"] = int(m.group(2))
        if line.startswith("** Results:"):
            in_results = True
            continue
        if not in_results:
            continue
        if line.startswith("** ") and "failed" in line:
            continue
        if line.startswith("VERIFICATION "):
            h.raw.append(line)
            h.cbmc_verdict = line.strip()
            continue
        if pending is not None:
            pending["desc"] += "\n" + line
            for st in STATUSES:
                if line.endswith(": " + st):
                    pending["desc"] = pending["desc"][: -len(": " + st)]
                    pending["status"] = st
                    props.append(pending)
                    pending = None
                    break
            continue
        m = RE_PROP.match(line)
        if m:
            name, ln, rest = m.group(1), m.group(2), m.group(3)
            d = {"name": name, "line": int(ln) if ln else 0, "file": cur_file, "func": cur_fn, "desc": rest, "status": None}
            done = False
            for st in STATUSES:
                if rest.endswith(": " + st):
                    d["desc"] = rest[: -len(": " + st)]
                    d["status"] = st
                    props.append(d)
                    done = True
                    break
            if not done:
                pending = d
            continue
        m = RE_HDR.match(line)
        if m and not line.startswith("["):
            cur_file, cur_fn = m.group(1) or "", m.group(2)
    # classify
    h.checks_total = 0
    h.checks_failed = 0
    h.covers_total = 0
    h.covers_sat = 0
    for d in props:
        parts = d["name"].rsplit(".", 2)
        cls = parts[-2] if len(parts) == 3 else "builtin"
        d["class"] = cls
        if cls == "reachability_check":
            continue
        if cls == "cover":
            h.covers_total += 1
            if d["status"] == "FAILURE":
                h.covers_sat += 1
                h.covers_named.append(d["desc"])
            continue
        h.checks_total += 1
        if d["status"] == "FAILURE":
            h.checks_failed += 1
            desc = d["desc"]
            if cls == "unwind" or "unwinding assertion" in desc:
                desc = "unwinding assertion " + desc
            if cls == "unsupported_construct":
                desc = "unsupported construct reached: " + desc
            h.failed.append({"desc": desc, "file": d["file"], "line": d["line"], "func": d["func"], "class": cls})
        elif d["status"] != "SUCCESS":
            h.stats["undetermined"] = h.stats.get("undetermined", 0) + 1
    if not props:
        return
    bad = h.checks_failed > 0
    h.status = "FAILED" if bad else "SUCCESSFUL"


def run_one(hm, solver, timeout_s, work_dir, fs_array, mem_kb=MEM_KB):
    """link + instrument + cbmc for one harness (metadata entry hm)."""
    name = hm["pretty_name"]
    h = HarnessResult(name)
    h.solver = solver
    h.covers_named = []
    h.cbmc_verdict = None
    leaf = name.replace("::", "__")
    out = os.path.join(work_dir, leaf + ".out")
    logf = os.path.join(work_dir, leaf + "." + solver + ".log")
    t0 = time.time()
    steps = [
        ["goto-cc", hm["goto_file"], KANI_LIB_C, "-o", out],
        ["goto-cc", out, "--function", hm["mangled_name"], "-o", out],
        ["goto-instrument", "--add-library", "--no-malloc-may-fail", out, out],
        ["goto-instrument", "--generate-function-body-options", "assert-false-assume-false",
         "--generate-function-body", ".*", "--drop-unused-functions", out, out],
        ["goto-instrument", "--ensure-one-backedge-per-target", out, out],
    ]
    env = dict(os.environ)
    env["PATH"] = os.path.join(KANI_HOME, "bin") + ":" + env["PATH"]
    for st in steps:
        p = sh(st, env=env)
        if p.returncode != 0:
            h.note = "goto step failed: %s: %s" % (st[0], p.stdout[-300:])
            return h
    unwind = hm["attributes"].get("unwind_value")
    h.unwind = unwind
    cmd = ["cbmc"] + CBMC_BASE
    if unwind is not None:
        cmd += ["--unwind", str(unwind)]
    cmd += ["--z3"] if solver == "z3" else ["--sat-solver", solver]
    cmd += ["--max-field-sensitivity-array-size", str(fs_array), out, "--verbosity", "8"]
    shell = "ulimit -v %d; exec timeout -s KILL %d %s > '%s' 2>&1" % (
        mem_kb, timeout_s, " ".join("'%s'" % c for c in cmd), logf)
    p = subprocess.run(["bash", "-c", shell], env=env)
    h.time_s = time.time() - t0
    try:
        text = open(logf, errors="replace").read()
    except Exception:
        text = ""
    # drop the per-iteration unwinding chatter from the kept log
    kept = [l for l in text.splitlines() if not (l.startswith("Unwinding loop") or l.startswith("Not unwinding"))]
    open(logf, "w").write("\n".join(kept) + "\n")
    parse_cbmc_text("\n".join(kept), h)
    if p.returncode in (137, -9) and h.status is None:
        h.note += "timeout (%ds) or killed; " % timeout_s
    elif h.status is None:
        tail = " | ".join(kept[-3:])[-200:]
        if "std::bad_alloc" in text or "Out of memory" in text or "out of memory" in text:
            h.note += "solver ran out of memory (limit %d kB); " % mem_kb
        else:
            h.note += "cbmc exit %s without results: %s; " % (p.returncode, tail)
    elif p.returncode not in (0, 10):
        h.note += "cbmc exit %s; " % p.returncode
        h.status = None if not h.failed else h.status
    try:
        os.remove(out)
    except Exception:
        pass
    return h


def run_harnesses(hms, solver_of, jobs, timeout_s, work_dir, fs_array):
    from concurrent.futures import ThreadPoolExecutor
    os.makedirs(work_dir, exist_ok=True)
    res = {}
    with ThreadPoolExecutor(max_workers=jobs) as ex:
        futs = {ex.submit(run_one, hm, solver_of(hm), timeout_s, work_dir, fs_array): hm for hm in hms}
        for f in futs:
            h = f.result()
            res[h.name] = h
    return res


def merge_json(results, js, solver_default):
    if not js:
        return
    det = {d["harness_id"]: d for d in js.get("property_details", [])}
    err = {d["harness_id"]: d for d in js.get("error_details", [])}
    cb = {d["harness_id"]: d for d in js.get("cbmc", [])}
    for name, h in results.items():
        if name in cb:
            h.stats = cb[name].get("cbmc_stats") or {}
            h.solver = cb[name].get("configuration", {}).get("solver", solver_default)
        if name in det:
            pd = det[name]["property_details"]
            h.stats["total_properties"] = pd.get("total_properties")
            h.stats["passed"] = pd.get("passed")
            h.stats["undetermined"] = pd.get("undetermined")
        if name in err and err[name].get("has_errors"):
            es = err[name].get("exit_status", "")
            if es and es != "properties_failed":
                h.note += "exit_status=%s; " % es


def crate_functions(target_dir, harness_names):
    """Functions of the crate under test present in each harness's goto program."""
    fns = set()
    per = {}
    for root, _dirs, files in os.walk(target_dir):
        for f in files:
            if not f.endswith(".pretty_name_map.json"):
                continue
            short = None
            for h in harness_names:
                leaf = h.split("::")[-1]
                if f.endswith("%d%s.pretty_name_map.json" % (len(leaf), leaf)):
                    short = h
                    break
            if short is None:
                continue
            try:
                d = json.load(open(os.path.join(root, f)))
            except Exception:
                continue
            mine = sorted({v for v in d.values() if isinstance(v, str) and (v.startswith("acpi_tables::") or v.startswith("<acpi_tables::"))
                           and "acpi_verif" not in v and "{closure" not in v and "common::" not in v
                           and "FatPtr" not in v and "vtable" not in v and "drop_glue" not in v})
            per[short] = len(mine)
            fns.update(mine)
    return sorted(fns), per


def is_crate_side(fc):
    f = fc.get("file", "")
    return f.startswith(REPO + "/") or (not f.startswith("src/") and f != "")


def classify(h, expect_refuse):
    """-> (verdict, details)  verdict in ok | violation | inconclusive | broken"""
    if h.status is None:
        return "inconclusive", "no verdict (%s)" % (h.note or "missing")
    unwind = [fc for fc in h.failed if "unwinding assertion" in fc["desc"]]
    if unwind:
        return "broken", "unwinding bound too small: " + unwind[0]["desc"]
    if h.status == "SUCCESSFUL":
        if not h.covers_sat:
            return "broken", "vacuous: no cover satisfied"
        if h.stats.get("undetermined"):
            return "inconclusive", "undetermined checks"
        return "ok", ""
    # FAILED
    if not h.failed:
        return "inconclusive", "FAILED without failed checks (%s)" % h.note
    harness_side = [fc for fc in h.failed if not is_crate_side(fc)]
    crate_side = [fc for fc in h.failed if is_crate_side(fc)]
    if expect_refuse:
        if harness_side:
            return "violation", harness_side
        # refused on some/all paths; CALLING cover must have been reachable
        if h.covers_sat is not None and h.covers_sat == 0:
            return "broken", "refusal harness never reached the call"
        return "ok", "refused: " + "; ".join(sorted({c["desc"] for c in crate_side}))[:300]
    return "violation", harness_side + crate_side


def load_known():
    p = os.path.join(ROOT, "known_findings.json")
    if not os.path.exists(p):
        return []
    return json.load(open(p)).get("findings", [])


def match_known(known, prop, harness, desc):
    for k in known:
        if k.get("status") != "known" or k.get("property") != prop:
            continue
        if not fnmatch.fnmatch(harness, k.get("harness", "*")):
            continue
        if k.get("check", "") in desc:
            return k
    return None


# ------------------------------------------------------------------ replay

def replay(prop, feature, h, solver, target_dir, timeout_s):
    """Kani concrete playback -> native test (dev + release). Returns (path, reproduced, log)."""
    rdir = os.path.join(ROOT, "replays", prop, h.short.replace("::", "__"))
    if os.path.exists(rdir):
        shutil.rmtree(rdir)
    os.makedirs(rdir)
    crate = os.path.join(rdir, "crate")
    shutil.copytree(KANI_DIR, crate, ignore=shutil.ignore_patterns("target", "Cargo.lock"))
    shutil.copy(os.path.join(KANI_DIR, "Cargo.lock"), os.path.join(crate, "Cargo.lock"))
    tdir = os.path.join(crate, "target")
    cmd = ["cargo", "kani", "--features", feature, "--harness", h.name, "--exact",
           "-Z", "concrete-playback", "--concrete-playback=print", "--output-format", "terse",
           "-Z", "unstable-options", "--harness-timeout", "%ds" % timeout_s]
    if solver:
        cmd += ["--solver", solver]
    cmd += ["--cbmc-args", "--max-field-sensitivity-array-size", "1024"]
    with MemWatch():
        p = subprocess.run(cmd, cwd=crate, env=kani_env(), stdout=subprocess.PIPE,
                           stderr=subprocess.STDOUT, text=True)
    logtxt = p.stdout[-3000:]
    # harness fns are `pub`, so a generated test can name them by full path from a sibling module
    # (inplace insertion does not work for macro-generated harnesses: it lands in the macro body).
    full = "crate::" + h.name
    blocks = re.findall(r"(?s)((?:[ \t]*///[^\n]*\n)*\s*#\[test\]\s*fn (kani_concrete_playback_\w+)\(\) \{.*?"
                        r"concrete_playback_run\(concrete_vals, \w+\);\s*\})", p.stdout)
    tests = []
    with open(os.path.join(crate, "src", "playback_gen.rs"), "w") as fo:
        fo.write("// generated by bin/check from Kani's concrete playback of %s\n" % h.name)
        for code, tname in blocks:
            if "Check for `cover`" in code:
                continue  # only failed assertions are replayed
            code = re.sub(r"concrete_playback_run\(concrete_vals, \w+\)", "concrete_playback_run(concrete_vals, %s)" % full, code)
            fo.write(code + "\n\n")
            tests.append(tname)
    with open(os.path.join(crate, "src", "lib.rs"), "a") as fo:
        fo.write("\n#[cfg(test)]\nmod playback_gen;\n")
    shutil.copy(os.path.join(crate, "src", "playback_gen.rs"), os.path.join(rdir, "playback_tests.rs"))
    if not tests:
        open(os.path.join(rdir, "replay.log"), "w").write(logtxt)
        shutil.rmtree(tdir, ignore_errors=True)
        return rdir, False, "no playback test generated for a failed assertion"
    reproduced = False
    outs = []
    # `cargo kani playback` has no --release: the release semantics (no overflow checks, no debug
    # assertions, optimised) are obtained by overriding the dev profile through the environment.
    rel_env = {"CARGO_PROFILE_DEV_OPT_LEVEL": "3", "CARGO_PROFILE_DEV_OVERFLOW_CHECKS": "false",
               "CARGO_PROFILE_DEV_DEBUG_ASSERTIONS": "false"}
    for label, extra_env in (("dev", {}), ("release-semantics", rel_env)):
        cmd = ["cargo", "kani", "playback", "-Z", "concrete-playback", "--features", feature,
               "--", "kani_concrete_playback"]
        env = kani_env()
        env.update(extra_env)
        q = subprocess.run(cmd, cwd=crate, env=env, stdout=subprocess.PIPE, stderr=subprocess.STDOUT, text=True)
        failed = bool(re.search(r"test result: FAILED", q.stdout))
        outs.append("### profile: %s -> %s\n$ %s\n%s" % (label, "REPRODUCED" if failed else "not reproduced",
                                                        " ".join(cmd), q.stdout[-4000:]))
        if failed:
            reproduced = True
    open(os.path.join(rdir, "replay.log"), "w").write(logtxt + "\n\n" + "\n\n".join(outs))
    with open(os.path.join(rdir, "README"), "w") as fo:
        fo.write("property %s harness %s\nreplay: cd %s && RUSTFLAGS='%s' cargo kani playback -Z concrete-playback "
                 "--features %s -- kani_concrete_playback\n" % (prop, h.name, crate, GUARD, feature))
    shutil.rmtree(tdir, ignore_errors=True)
    return rdir, reproduced, "tests=%s" % ",".join(tests)


def replay_smt(prop, query, mv):
    """native replay of an Engine-M counterexample (dev and release); reproduced = the test fails"""
    rdir = os.path.join(ROOT, "replays", prop, re.sub(r"[^A-Za-z0-9_]+", "_", query))
    shutil.rmtree(rdir, ignore_errors=True)
    os.makedirs(os.path.join(rdir, "tests"))
    os.makedirs(os.path.join(rdir, "src"))
    if not mv.get("replay_rs"):
        return rdir, False, "no replay template for this query"
    open(os.path.join(rdir, "Cargo.toml"), "w").write(
        '[package]\nname = "replay"\nversion = "0.1.0"\nedition = "2021"\n\n[dependencies]\nacpi_tables = { path = "%s" }\n\n[workspace]\n' % REPO)
    open(os.path.join(rdir, "src", "lib.rs"), "w").write("")
    open(os.path.join(rdir, "tests", "replay.rs"), "w").write(mv["replay_rs"])
    env = dict(os.environ)
    env["CARGO_NET_OFFLINE"] = "true"
    env.pop("RUSTFLAGS", None)
    outs = []
    ok = False
    for prof in ([], ["--release"]):
        q = subprocess.run(["cargo", "test", "--offline"] + prof, cwd=rdir, env=env, stdout=subprocess.PIPE, stderr=subprocess.STDOUT, text=True)
        failed = "test result: FAILED" in q.stdout
        outs.append("### cargo test %s -> %s\n%s" % (" ".join(prof), "REPRODUCED" if failed else "not reproduced", q.stdout[-2000:]))
        ok = ok or failed
    open(os.path.join(rdir, "replay.log"), "w").write("\n\n".join(outs))
    open(os.path.join(rdir, "README"), "w").write("property %s query %s\n%s\nreplay: cd %s && cargo test --offline [--release]\n" % (prop, query, mv["desc"], rdir))
    shutil.rmtree(os.path.join(rdir, "target"), ignore_errors=True)
    return rdir, ok, "dev/release run"


# ------------------------------------------------------------------ main

def main(argv):
    if not argv:
        log(__doc__)
        return 2
    prop = argv[0].upper()
    tier = os.environ.get("VERIF_TIER", "quick")
    only = None
    do_replay = True
    jobs = None
    i = 1
    while i < len(argv):
        a = argv[i]
        if a in ("quick", "thorough"):
            tier = a
        elif a == "--only":
            i += 1
            only = argv[i]
        elif a == "--no-replay":
            do_replay = False
        elif a == "--jobs":
            i += 1
            jobs = int(argv[i])
        i += 1
    seed = int(os.environ.get("VERIF_SEED", "0") or 0)
    if prop not in P.PROPS:
        log("unknown property", prop)
        return 2
    cfg = P.PROPS[prop]
    feature = prop.lower()
    t_start = time.time()
    sync_lock()
    target_dir = os.path.join(KANI_DIR, "target", feature)
    known = load_known()
    jobs = jobs or cfg.get("jobs", 12)
    timeout_s = cfg.get("timeout_%s" % tier, cfg.get("timeout", 600))
    if tier == "thorough" and "timeout_thorough" not in cfg:
        timeout_s = max(timeout_s, 2400)  # thorough-only harnesses include the 1 KiB-body and 255-segment ones

    # ---------------- Engine K
    want = ("q_",) if tier == "quick" else ("q_", "t_")
    log("[%s/%s] codegen: cargo kani --only-codegen --features %s (RUSTFLAGS=%s)" % (prop, tier, feature, GUARD))
    hms, btext, bwall = build_goto(feature, target_dir)
    os.makedirs(target_dir, exist_ok=True)
    open(os.path.join(target_dir, "build.log"), "w").write(btext)
    if hms is None:
        log(btext[-3000:])
        log("BROKEN: harness crate does not build against /repo's current tree")
        write_evidence(prop, tier, seed, cfg, {}, {}, [], time.time() - t_start, 0, broken="build failed")
        return 2
    sel = [hm for hm in hms if hm["pretty_name"].split("::")[-1].startswith(want)]
    if only:
        sel = [hm for hm in sel if only in hm["pretty_name"]]
    sel.sort(key=lambda hm: hm["pretty_name"])
    skipped = []
    skip = cfg.get("skip", {})
    if not only:
        keep = []
        for hm in sel:
            leaf = hm["pretty_name"].split("::")[-1]
            if leaf in skip:
                skipped.append({"harness": hm["pretty_name"].split("::", 1)[1], "reason": skip[leaf]})
            else:
                keep.append(hm)
        sel = keep
    cfg["_skipped"] = skipped
    if not sel:
        log("BROKEN: no harness selected")
        return 2
    default_solver = cfg.get("solver") or "cadical"

    def solver_of(hm):
        return hm["attributes"].get("solver") and str(hm["attributes"]["solver"]).lower().strip('"') or default_solver

    def solver_of_clean(hm):
        sv = hm["attributes"].get("solver")
        if isinstance(sv, dict):
            sv = list(sv.keys())[0] if sv else None
        if isinstance(sv, str):
            sv = sv.lower()
        return sv if sv in ("z3", "cadical", "kissat", "minisat", "cvc5") else default_solver

    work_dir = os.path.join(target_dir, "work")
    shutil.rmtree(work_dir, ignore_errors=True)
    log("[%s/%s] %d harnesses, jobs=%d, per-harness timeout %ds, default back end %s (codegen %.0fs)" %
        (prop, tier, len(sel), jobs, timeout_s, default_solver, bwall))
    results = run_harnesses(sel, solver_of_clean, jobs, timeout_s, work_dir, cfg.get("fs_array", 1024))

    # ---------------- portfolio fallback for inconclusive harnesses
    verdicts = {}
    for name, h in results.items():
        verdicts[name] = classify(h, "refuse" in name.split("::")[-1])
    retry = [n for n, (v, _d) in verdicts.items() if v == "inconclusive"]
    if retry:
        byname = {hm["pretty_name"]: hm for hm in sel}
        alt_of = {n: ("cadical" if (results[n].solver or "cadical") != "cadical" else "z3") for n in retry}
        log("[%s] %d inconclusive -> alternate back end: %s" % (prop, len(retry), ", ".join(
            "%s(%s: %s)" % (x.split("::")[-1], alt_of[x], verdicts[x][1][:60]) for x in retry)))
        r2 = run_harnesses([byname[n] for n in retry], lambda hm: alt_of[hm["pretty_name"]], jobs, timeout_s * 2,
                           work_dir, cfg.get("fs_array", 1024))
        for n in retry:
            v2 = classify(r2[n], "refuse" in n.split("::")[-1])
            if v2[0] != "inconclusive":
                r2[n].note += "primary back end inconclusive (%s); " % verdicts[n][1]
                results[n] = r2[n]
                verdicts[n] = v2
            else:
                results[n].note += "alternate back end %s also inconclusive (%s); " % (alt_of[n], v2[1])

    # ---------------- Engine M
    mir_report = None
    mir_viol = []
    mir_broken = []
    if cfg.get("mir"):
        # Engine M needs the z3 Python bindings, which live in the tooling venv (python3-vt)
        pm = subprocess.run(["python3-vt", os.path.join(ROOT, "lib", "mirsmt.py"), prop, "--json"],
                            stdout=subprocess.PIPE, stderr=subprocess.PIPE, text=True)
        try:
            mir_report = json.loads(pm.stdout)
        except Exception:
            mir_report = {"queries": [], "violations": [], "broken": ["engine M crashed: " + (pm.stderr or pm.stdout)[-400:]]}
        mir_viol = mir_report.get("violations", [])
        mir_broken = mir_report.get("broken", [])

    # ---------------- verdicts
    n_ok = sum(1 for v in verdicts.values() if v[0] == "ok")
    broken = [(n, d) for n, (v, d) in verdicts.items() if v in ("broken", "inconclusive")]
    viols = [(n, d) for n, (v, d) in verdicts.items() if v == "violation"]
    exit_code = 0
    known_lines = []
    new_viols = []
    for n, fcs in viols:
        h = results[n]
        unknown = []
        for fc in fcs:
            k = match_known(known, prop, h.short, fc["desc"])
            if k:
                line = "KNOWN-FINDING: property=%s %s [%s: %s]" % (prop, k.get("what", ""), h.short, fc["desc"])
                if line not in known_lines:
                    known_lines.append(line)
            else:
                unknown.append(fc)
        if unknown:
            new_viols.append((n, unknown))
    for mv in mir_viol:
        k = match_known(known, prop, mv["query"], mv["desc"])
        if k:
            known_lines.append("KNOWN-FINDING: property=%s %s [%s: %s]" % (prop, k.get("what", ""), mv["query"], mv["desc"]))
        else:
            new_viols.append((mv["query"], [mv]))
    for line in known_lines:
        log(line)

    violations_reported = 0
    replay_budget = cfg.get("max_replays", 4)
    for n, fcs in new_viols:
        if n in results:
            h = results[n]
            descs = "; ".join("%s @%s:%s" % (fc["desc"], fc["file"], fc["line"]) for fc in fcs)
            log("[%s] FAILED %s: %s" % (prop, h.short, descs))
            if do_replay and replay_budget > 0:
                replay_budget -= 1
                path, ok, info = replay(prop, feature, h, h.solver if h.solver != "cadical" else None, target_dir, timeout_s * 2)
                if ok:
                    log("VIOLATION property=%s replay=%s" % (prop, path))
                    violations_reported += 1
                    exit_code = 1
                else:
                    log("[%s] counterexample for %s did NOT reproduce natively (%s): encoding problem -> exit 2" % (prop, h.short, info))
                    broken.append((n, "counterexample does not replay: " + info))
            else:
                path = os.path.join(ROOT, "replays", prop, h.short.replace("::", "__"))
                os.makedirs(path, exist_ok=True)
                with open(os.path.join(path, "UNREPLAYED"), "w") as fo:
                    fo.write(descs + "\nre-run: bin/check %s %s --only %s\n" % (prop, tier, h.name))
                log("VIOLATION property=%s replay=%s" % (prop, path))
                violations_reported += 1
                exit_code = 1
        else:
            mv = fcs[0]
            log("[%s] SMT counterexample %s: %s" % (prop, n, mv["desc"][:300]))
            path, ok, info = replay_smt(prop, n, mv)
            if ok:
                log("VIOLATION property=%s replay=%s" % (prop, path))
                violations_reported += 1
                exit_code = 1
            else:
                log("[%s] SMT counterexample %s did NOT reproduce natively (%s) -> exit 2" % (prop, n, info))
                broken.append((n, "SMT counterexample does not replay: " + info))

    for n, d in broken:
        log("[%s] INCONCLUSIVE/BROKEN %s: %s" % (prop, n.split("::", 1)[-1], d if isinstance(d, str) else str(d)[:300]))
    for b in mir_broken:
        log("[%s] INCONCLUSIVE/BROKEN (engine M) %s" % (prop, b))
    if (broken or mir_broken) and exit_code == 0:
        exit_code = 2

    fns, _per = crate_functions(os.path.join(target_dir, "kani"), list(results.keys()))
    wall_total = time.time() - t_start
    write_evidence(prop, tier, seed, cfg, results, verdicts, fns, wall_total, violations_reported,
                   known_lines=known_lines, mir=mir_report,
                   broken=("; ".join("%s: %s" % (n.split('::')[-1], str(d)[:120]) for n, d in broken) or None))
    log("[%s/%s] harnesses=%d ok=%d violations=%d known=%d inconclusive/broken=%d wall=%.0fs -> exit %d" %
        (prop, tier, len(results), n_ok, violations_reported, len(known_lines), len(broken) + len(mir_broken), wall_total, exit_code))
    return exit_code


def write_evidence(prop, tier, seed, cfg, results, verdicts, fns, wall, nviol, known_lines=None, mir=None, broken=None):
    hs = []
    solver_s = 0.0
    checks = 0
    nontrivial = 0
    for n, h in sorted(results.items()) if results else []:
        v = verdicts.get(n, ("?", ""))
        st = h.stats or {}
        ss = (st.get("runtime_solver_s") or 0.0) + (st.get("runtime_decision_procedure_s") or 0.0)
        solver_s += st.get("runtime_decision_procedure_s") or st.get("runtime_solver_s") or 0.0
        checks += (h.checks_total or 0)
        if v[0] == "ok" and (h.covers_sat or 0) >= 1 and (h.checks_total or 0) > 0:
            nontrivial += 1
        hs.append({
            "harness": h.short,
            "verdict": v[0],
            "detail": v[1] if isinstance(v[1], str) else [fc["desc"] for fc in v[1]],
            "solver": h.solver,
            "checks_total": h.checks_total,
            "checks_failed": h.checks_failed,
            "covers_satisfied": h.covers_sat,
            "verification_time_s": h.time_s,
            "symex_s": st.get("runtime_symex_s"),
            "solver_s": round(ss, 3),
            "vccs": st.get("vccs_generated"),
            "bounds": dict(P.bounds_of(prop, h.short), unwind=h.unwind, unwinding_assertions=True,
                           **({"inputs": "concrete twin: every entry value fixed (all-zero / all-one), OEM fields symbolic"}
                              if "::fx::" in h.short else {})),
            "note": h.note,
        })
    mir_q = (mir or {}).get("queries", [])
    evaluations = len(hs) + len(mir_q)
    distinct = nontrivial + sum(1 for q in mir_q if q.get("result") in ("unsat", "holds") and "feasible=unsat" not in (q.get("detail") or ""))
    samples = [{"harness": x["harness"], "bounds": x["bounds"], "verdict": x["verdict"], "back_end": x["solver"],
                "checks": x["checks_total"]} for x in hs[:6]]
    samples += [{"smt_query": q.get("name"), "result": q.get("result")} for q in mir_q[:4]]
    ev = {
        "property_id": prop,
        "tier": tier,
        "seed": seed,
        "level": cfg.get("level", "model_checking"),
        "coverage": {
            "evaluations": max(evaluations, 0),
            "distinct_nontrivial": distinct,
            "rule": "one evaluation = one solver-decided query: a Kani/CBMC harness over the compiled crate "
                    "(shape concrete, contents symbolic; all its checks discharged by the SAT/SMT back end) or one "
                    "MIR->SMT query. Counted as distinct non-trivial only if the verdict was SUCCESSFUL with the "
                    "vacuity cover satisfied and at least one check present (SMT: unsat with the sanity twin sat). "
                    "Harness names are unique, so distinct == counted. Harnesses over enumerated concrete inputs "
                    "(refusal strings, concrete twins under fx::) are single-valuation queries; each is one evaluation.",
            "single_valuation_harnesses": sum(1 for x in hs if "::fx::" in x["harness"] or "scan_refuse" in x["harness"] or "uuid_refuse" in x["harness"]),
            "samples": samples or [{"note": "no harness ran"}],
            "exhaustive": False,
            "explanation": cfg.get("explanation") or cfg.get("level_text", ""),
            "technique": "bounded model checking of the compiled crate (Kani 0.68 / CBMC 6.11; SAT: cadical, SMT: z3) "
                         + ("+ MIR->SMT-LIB2 translation (z3, cvc5 cross-check)" if cfg.get("mir") else ""),
            "harnesses": hs,
            "functions_encoded": fns,
            "checks_discharged": checks,
            "solver_time_s": round(solver_s, 2),
            "bounds": cfg.get("bounds", ""),
            "outside_bounds": cfg.get("outside", ""),
            "known_findings_reported": known_lines or [],
            "harnesses_not_run_for_this_property": cfg.get("_skipped", []),
            "engine_m": mir or None,
            "encoding_regenerated_from": "/repo working tree at run time (cargo kani rebuild; MIR dump of a scratch copy)",
        },
        "assumptions": cfg.get("assumptions", []),
        "wall_s": round(wall, 1),
        "violations": nviol,
    }
    if broken:
        ev["coverage"]["inconclusive"] = broken
    evdir = os.environ.get("VERIF_EVIDENCE_DIR") or os.path.join(ROOT, "evidence")
    os.makedirs(evdir, exist_ok=True)
    with open(os.path.join(evdir, "%s.json" % prop), "w") as fo:
        json.dump(ev, fo, indent=1)
