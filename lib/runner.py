"""Runner: builds the Kani harness crate against /repo's current working tree, runs the
harnesses of one property under a solver portfolio, runs the MIR->SMT engine where the
property has one, replays counterexamples natively, writes the evidence file.

Verdict rules (DESIGN.md section 1):
  * a harness is green only on VERIFICATION:- SUCCESSFUL with zero failed checks and its
    vacuity cover (REACHED / CALLING) satisfied;
  * timeout, out-of-memory, CBMC abort, missing verdict => inconclusive for that back end,
    the alternate back end is tried, and if that is inconclusive too the run exits 2;
  * an unwinding-assertion failure is a broken bound (exit 2), never a pass;
  * a failed check is a candidate violation; it is replayed natively (Kani concrete
    playback, dev and release) and only a reproducing one prints VIOLATION.
"""
import fnmatch
import json
import os
import re
import shutil
import subprocess
import sys
import time

ROOT = os.path.normpath(os.path.join(os.path.dirname(os.path.abspath(__file__)), ".."))
KANI_DIR = os.path.join(ROOT, "kani")
REPO = "/repo"
GUARD = "--cfg rust_vmm_acpi_tables_verif"
MEM_KB = 20_000_000  # ulimit -v per process

sys.path.insert(0, os.path.join(ROOT, "lib"))
import props as P  # noqa: E402


def log(*a):
    print(*a, flush=True)


def kani_env():
    env = dict(os.environ)
    env["RUSTFLAGS"] = GUARD
    env["CARGO_NET_OFFLINE"] = "true"
    env.pop("RUSTUP_TOOLCHAIN", None)
    return env


def sync_lock():
    """harness crate builds with /repo's lock file (offline; same zerocopy)."""
    src = os.path.join(REPO, "Cargo.lock")
    dst = os.path.join(KANI_DIR, "Cargo.lock")
    if not os.path.exists(dst):
        if os.path.exists(src):
            # keep only what cargo needs; cargo rewrites it for the harness crate
            shutil.copy(src, dst)


class HarnessResult:
    def __init__(self, name):
        self.name = name
        self.status = None  # 'SUCCESSFUL' | 'FAILED' | None
        self.failed = []  # list of dict(desc,file,line,func)
        self.covers_sat = None
        self.covers_total = None
        self.covers_unreach = 0
        self.checks_total = None
        self.checks_failed = None
        self.time_s = None
        self.solver = None
        self.note = ""
        self.raw = []
        self.stats = {}

    @property
    def short(self):
        return self.name.split("::", 1)[1] if "::" in self.name else self.name


RE_CHECKING = re.compile(r"^(?:Thread (\d+): )?Checking harness (\S+?)\.\.\.")
RE_THREAD = re.compile(r"^Thread (\d+): ?(.*)$")
RE_RES = re.compile(r"\*\* (\d+) of (\d+) failed")
RE_COV = re.compile(r"\*\* (\d+) of (\d+) cover properties satisfied(?: \((\d+) unreachable\))?")
RE_FILE = re.compile(r'^\s*File: "([^"]*)", line (\d+), in (.*)$')


def parse_terse(text):
    """Parse `cargo kani --output-format terse -j N` output into {harness: HarnessResult}."""
    res = {}
    cur_of_thread = {}
    active = None  # HarnessResult currently receiving block lines
    last_failed = None
    for line in text.splitlines():
        m = RE_CHECKING.match(line)
        if m:
            th = m.group(1) or "0"
            h = HarnessResult(m.group(2))
            res[h.name] = h
            cur_of_thread[th] = h
            active = None
            continue
        m = RE_THREAD.match(line)
        if m and m.group(1) in cur_of_thread:
            active = cur_of_thread[m.group(1)]
            rest = m.group(2)
            if rest:
                active.raw.append(rest)
                line = rest
            else:
                continue
        if line.startswith("VERIFICATION RESULT:") and active is None and len(cur_of_thread) == 1:
            active = list(cur_of_thread.values())[0]
        if active is None:
            continue
        active.raw.append(line)
        m = RE_RES.search(line)
        if m:
            active.checks_failed = int(m.group(1))
            active.checks_total = int(m.group(2))
            continue
        m = RE_COV.search(line)
        if m:
            active.covers_sat = int(m.group(1))
            active.covers_total = int(m.group(2))
            active.covers_unreach = int(m.group(3) or 0)
            continue
        if line.startswith("Failed Checks:"):
            last_failed = {"desc": line[len("Failed Checks:"):].strip(), "file": "", "line": 0, "func": ""}
            active.failed.append(last_failed)
            continue
        m = RE_FILE.match(line)
        if m and last_failed is not None:
            last_failed["file"] = m.group(1)
            last_failed["line"] = int(m.group(2))
            last_failed["func"] = m.group(3)
            continue
        if line.startswith("VERIFICATION:- "):
            active.status = line.split(":- ", 1)[1].split()[0].strip()
            continue
        m = re.match(r"Verification Time: ([0-9.]+)s", line)
        if m:
            active.time_s = float(m.group(1))
            active = None
            last_failed = None
            continue
        if "timed out" in line.lower() or "CBMC failed" in line or "out of memory" in line.lower():
            active.note += line.strip() + "; "
    return res


def run_cargo_kani(feature, filters, exact, solver, jobs, timeout_s, target_dir, extra=None, fs_array=1024):
    """One cargo-kani invocation. Returns (text, json_or_None, wall)."""
    out_json = os.path.join(target_dir, "export-%d.json" % os.getpid())
    os.makedirs(target_dir, exist_ok=True)
    if os.path.exists(out_json):
        os.remove(out_json)
    cmd = ["cargo", "kani", "--features", feature, "--target-dir", target_dir]
    for f in filters:
        cmd += ["--harness", f]
    if exact:
        cmd += ["--exact"]
    if solver:
        cmd += ["--solver", solver]
    cmd += ["-j", str(jobs), "--output-format", "terse", "-Z", "unstable-options",
            "--harness-timeout", "%ds" % timeout_s, "--export-json", out_json]
    if extra:
        cmd += extra
    cmd += ["--cbmc-args", "--max-field-sensitivity-array-size", str(fs_array)]
    sh = "ulimit -v %d; exec %s" % (MEM_KB, " ".join("'%s'" % c for c in cmd))
    t0 = time.time()
    # overall cap: all harnesses could time out sequentially on `jobs` workers
    p = subprocess.run(["bash", "-c", sh], cwd=KANI_DIR, env=kani_env(), stdout=subprocess.PIPE,
                       stderr=subprocess.STDOUT, text=True)
    wall = time.time() - t0
    js = None
    if os.path.exists(out_json):
        try:
            js = json.load(open(out_json))
        except Exception:
            js = None
    return p.stdout, js, wall, p.returncode


def merge_json(results, js, solver_default):
    if not js:
        return
    det = {d["harness_id"]: d for d in js.get("property_details", [])}
    err = {d["harness_id"]: d for d in js.get("error_details", [])}
    cb = {d["harness_id"]: d for d in js.get("cbmc", [])}
    for name, h in results.items():
        if name in cb:
            h.stats = cb[name].get("cbmc_stats") or {}
            h.solver = cb[name].get("configuration", {}).get("solver", solver_default)
        if name in det:
            pd = det[name]["property_details"]
            h.stats["total_properties"] = pd.get("total_properties")
            h.stats["passed"] = pd.get("passed")
            h.stats["undetermined"] = pd.get("undetermined")
        if name in err and err[name].get("has_errors"):
            es = err[name].get("exit_status", "")
            if es and es != "properties_failed":
                h.note += "exit_status=%s; " % es


def crate_functions(target_dir, harness_names):
    """Functions of the crate under test present in each harness's goto program."""
    fns = set()
    per = {}
    for root, _dirs, files in os.walk(target_dir):
        for f in files:
            if not f.endswith(".pretty_name_map.json"):
                continue
            short = None
            for h in harness_names:
                leaf = h.split("::")[-1]
                if f.endswith("%d%s.pretty_name_map.json" % (len(leaf), leaf)):
                    short = h
                    break
            if short is None:
                continue
            try:
                d = json.load(open(os.path.join(root, f)))
            except Exception:
                continue
            mine = sorted({v for v in d.values() if isinstance(v, str) and "acpi_tables::" in v
                           and "acpi_verif" not in v and "{closure" not in v and "common::" not in v
                           and "FatPtr" not in v and "vtable" not in v and "drop_glue" not in v})
            per[short] = len(mine)
            fns.update(mine)
    return sorted(fns), per


def is_crate_side(fc):
    f = fc.get("file", "")
    return f.startswith(REPO + "/") or (not f.startswith("src/") and f != "")


def classify(h, expect_refuse):
    """-> (verdict, details)  verdict in ok | violation | inconclusive | broken"""
    if h.status is None:
        return "inconclusive", "no verdict (%s)" % (h.note or "missing")
    unwind = [fc for fc in h.failed if "unwinding assertion" in fc["desc"]]
    if unwind:
        return "broken", "unwinding bound too small: " + unwind[0]["desc"]
    if h.status == "SUCCESSFUL":
        if not h.covers_sat:
            return "broken", "vacuous: no cover satisfied"
        if h.stats.get("undetermined"):
            return "inconclusive", "undetermined checks"
        return "ok", ""
    # FAILED
    if not h.failed:
        return "inconclusive", "FAILED without failed checks (%s)" % h.note
    harness_side = [fc for fc in h.failed if not is_crate_side(fc)]
    crate_side = [fc for fc in h.failed if is_crate_side(fc)]
    if expect_refuse:
        if harness_side:
            return "violation", harness_side
        # refused on some/all paths; CALLING cover must have been reachable
        if h.covers_sat is not None and h.covers_sat == 0:
            return "broken", "refusal harness never reached the call"
        return "ok", "refused: " + "; ".join(sorted({c["desc"] for c in crate_side}))[:300]
    return "violation", harness_side + crate_side


def load_known():
    p = os.path.join(ROOT, "known_findings.json")
    if not os.path.exists(p):
        return []
    return json.load(open(p)).get("findings", [])


def match_known(known, prop, harness, desc):
    for k in known:
        if k.get("status") != "known" or k.get("property") != prop:
            continue
        if not fnmatch.fnmatch(harness, k.get("harness", "*")):
            continue
        if k.get("check", "") in desc:
            return k
    return None


# ------------------------------------------------------------------ replay

def replay(prop, feature, h, solver, target_dir, timeout_s):
    """Kani concrete playback -> native test (dev + release). Returns (path, reproduced, log)."""
    rdir = os.path.join(ROOT, "replays", prop, h.short.replace("::", "__"))
    if os.path.exists(rdir):
        shutil.rmtree(rdir)
    os.makedirs(rdir)
    crate = os.path.join(rdir, "crate")
    shutil.copytree(KANI_DIR, crate, ignore=shutil.ignore_patterns("target", "Cargo.lock"))
    shutil.copy(os.path.join(KANI_DIR, "Cargo.lock"), os.path.join(crate, "Cargo.lock"))
    tdir = os.path.join(crate, "target")
    cmd = ["cargo", "kani", "--features", feature, "--harness", h.name, "--exact",
           "-Z", "concrete-playback", "--concrete-playback=print", "--output-format", "terse",
           "-Z", "unstable-options", "--harness-timeout", "%ds" % timeout_s]
    if solver:
        cmd += ["--solver", solver]
    cmd += ["--cbmc-args", "--max-field-sensitivity-array-size", "1024"]
    sh = "ulimit -v %d; exec %s" % (MEM_KB, " ".join("'%s'" % c for c in cmd))
    p = subprocess.run(["bash", "-c", sh], cwd=crate, env=kani_env(), stdout=subprocess.PIPE,
                       stderr=subprocess.STDOUT, text=True)
    logtxt = p.stdout[-3000:]
    # harness fns are `pub`, so a generated test can name them by full path from a sibling module
    # (inplace insertion does not work for macro-generated harnesses: it lands in the macro body).
    full = "crate::" + h.name
    blocks = re.findall(r"(?s)((?:[ \t]*///[^\n]*\n)*\s*#\[test\]\s*fn (kani_concrete_playback_\w+)\(\) \{.*?"
                        r"concrete_playback_run\(concrete_vals, \w+\);\s*\})", p.stdout)
    tests = []
    with open(os.path.join(crate, "src", "playback_gen.rs"), "w") as fo:
        fo.write("// generated by bin/check from Kani's concrete playback of %s\n" % h.name)
        for code, tname in blocks:
            if "Check for `cover`" in code:
                continue  # only failed assertions are replayed
            code = re.sub(r"concrete_playback_run\(concrete_vals, \w+\)", "concrete_playback_run(concrete_vals, %s)" % full, code)
            fo.write(code + "\n\n")
            tests.append(tname)
    with open(os.path.join(crate, "src", "lib.rs"), "a") as fo:
        fo.write("\n#[cfg(test)]\nmod playback_gen;\n")
    shutil.copy(os.path.join(crate, "src", "playback_gen.rs"), os.path.join(rdir, "playback_tests.rs"))
    if not tests:
        open(os.path.join(rdir, "replay.log"), "w").write(logtxt)
        shutil.rmtree(tdir, ignore_errors=True)
        return rdir, False, "no playback test generated for a failed assertion"
    reproduced = False
    outs = []
    # `cargo kani playback` has no --release: the release semantics (no overflow checks, no debug
    # assertions, optimised) are obtained by overriding the dev profile through the environment.
    rel_env = {"CARGO_PROFILE_DEV_OPT_LEVEL": "3", "CARGO_PROFILE_DEV_OVERFLOW_CHECKS": "false",
               "CARGO_PROFILE_DEV_DEBUG_ASSERTIONS": "false"}
    for label, extra_env in (("dev", {}), ("release-semantics", rel_env)):
        cmd = ["cargo", "kani", "playback", "-Z", "concrete-playback", "--features", feature,
               "--", "kani_concrete_playback"]
        env = kani_env()
        env.update(extra_env)
        q = subprocess.run(cmd, cwd=crate, env=env, stdout=subprocess.PIPE, stderr=subprocess.STDOUT, text=True)
        failed = bool(re.search(r"test result: FAILED", q.stdout))
        outs.append("### profile: %s -> %s\n$ %s\n%s" % (label, "REPRODUCED" if failed else "not reproduced",
                                                        " ".join(cmd), q.stdout[-4000:]))
        if failed:
            reproduced = True
    open(os.path.join(rdir, "replay.log"), "w").write(logtxt + "\n\n" + "\n\n".join(outs))
    with open(os.path.join(rdir, "README"), "w") as fo:
        fo.write("property %s harness %s\nreplay: cd %s && RUSTFLAGS='%s' cargo kani playback -Z concrete-playback "
                 "--features %s -- kani_concrete_playback\n" % (prop, h.name, crate, GUARD, feature))
    shutil.rmtree(tdir, ignore_errors=True)
    return rdir, reproduced, "tests=%s" % ",".join(tests)


# ------------------------------------------------------------------ main

def main(argv):
    if not argv:
        log(__doc__)
        return 2
    prop = argv[0].upper()
    tier = os.environ.get("VERIF_TIER", "quick")
    only = None
    do_replay = True
    jobs = None
    i = 1
    while i < len(argv):
        a = argv[i]
        if a in ("quick", "thorough"):
            tier = a
        elif a == "--only":
            i += 1
            only = argv[i]
        elif a == "--no-replay":
            do_replay = False
        elif a == "--jobs":
            i += 1
            jobs = int(argv[i])
        i += 1
    seed = int(os.environ.get("VERIF_SEED", "0") or 0)
    if prop not in P.PROPS:
        log("unknown property", prop)
        return 2
    cfg = P.PROPS[prop]
    feature = prop.lower()
    t_start = time.time()
    sync_lock()
    target_dir = os.path.join(KANI_DIR, "target", feature)
    known = load_known()
    jobs = jobs or cfg.get("jobs", 12)
    timeout_s = cfg.get("timeout_%s" % tier, cfg.get("timeout", 600 if tier == "quick" else 2400))

    # ---------------- Engine K
    filt = "::%s::q_" % feature if tier == "quick" else "::%s::" % feature
    filters = [filt]
    if only:
        filters = [only]
    log("[%s/%s] cargo kani --features %s --harness %s (jobs=%d, per-harness timeout %ds)" %
        (prop, tier, feature, filters[0], jobs, timeout_s))
    text, js, wall, rc = run_cargo_kani(feature, filters, False, None, jobs, timeout_s, target_dir,
                                        fs_array=cfg.get("fs_array", 1024))
    open(os.path.join(target_dir, "last-%s.log" % tier), "w").write(text)
    if "error: could not compile" in text or "error[E" in text or re.search(r"^error: ", text, re.M) and "Checking harness" not in text:
        log(text[-3000:])
        log("BROKEN: harness crate does not build against /repo's current tree")
        write_evidence(prop, tier, seed, cfg, [], {}, [], time.time() - t_start, 0, broken="build failed")
        return 2
    results = parse_terse(text)
    merge_json(results, js, "cadical")
    if only:
        results = {k: v for k, v in results.items() if only in k}
    if not results:
        log(text[-2000:])
        log("BROKEN: no harness ran")
        return 2

    # ---------------- portfolio fallback for inconclusive harnesses
    verdicts = {}
    for name, h in results.items():
        verdicts[name] = classify(h, "refuse" in name.split("::")[-1])
    retry = [n for n, (v, _d) in verdicts.items() if v == "inconclusive"]
    if retry:
        alt_for = {}
        for n in retry:
            prim = results[n].solver or "cadical"
            alt = "cadical" if prim != "cadical" else "z3"
            alt_for.setdefault(alt, []).append(n)
        for alt, names in alt_for.items():
            log("[%s] %d inconclusive -> retry with --solver %s: %s" % (prop, len(names), alt,
                                                                      ", ".join(x.split('::')[-1] for x in names)))
            t2, j2, _w2, _rc2 = run_cargo_kani(feature, names, True, alt, jobs, timeout_s * 2, target_dir,
                                               fs_array=cfg.get("fs_array", 1024))
            open(os.path.join(target_dir, "last-%s-retry-%s.log" % (tier, alt)), "w").write(t2)
            r2 = parse_terse(t2)
            merge_json(r2, j2, alt)
            for n in names:
                if n in r2:
                    r2[n].solver = alt
                    v2 = classify(r2[n], "refuse" in n.split("::")[-1])
                    if v2[0] != "inconclusive":
                        r2[n].note += "primary back end inconclusive (%s); " % verdicts[n][1]
                        results[n] = r2[n]
                        verdicts[n] = v2

    # ---------------- Engine M
    mir_report = None
    mir_viol = []
    mir_broken = []
    if cfg.get("mir"):
        import mirsmt
        mir_report = mirsmt.run(prop, tier, seed, cfg["mir"])
        mir_viol = mir_report.get("violations", [])
        mir_broken = mir_report.get("broken", [])

    # ---------------- verdicts
    n_ok = sum(1 for v in verdicts.values() if v[0] == "ok")
    broken = [(n, d) for n, (v, d) in verdicts.items() if v in ("broken", "inconclusive")]
    viols = [(n, d) for n, (v, d) in verdicts.items() if v == "violation"]
    exit_code = 0
    known_lines = []
    new_viols = []
    for n, fcs in viols:
        h = results[n]
        unknown = []
        for fc in fcs:
            k = match_known(known, prop, h.short, fc["desc"])
            if k:
                line = "KNOWN-FINDING: property=%s %s [%s: %s]" % (prop, k.get("what", ""), h.short, fc["desc"])
                if line not in known_lines:
                    known_lines.append(line)
            else:
                unknown.append(fc)
        if unknown:
            new_viols.append((n, unknown))
    for mv in mir_viol:
        k = match_known(known, prop, mv["query"], mv["desc"])
        if k:
            known_lines.append("KNOWN-FINDING: property=%s %s [%s: %s]" % (prop, k.get("what", ""), mv["query"], mv["desc"]))
        else:
            new_viols.append((mv["query"], [mv]))
    for line in known_lines:
        log(line)

    violations_reported = 0
    replay_budget = cfg.get("max_replays", 4)
    for n, fcs in new_viols:
        if n in results:
            h = results[n]
            descs = "; ".join("%s @%s:%s" % (fc["desc"], fc["file"], fc["line"]) for fc in fcs)
            log("[%s] FAILED %s: %s" % (prop, h.short, descs))
            if do_replay and replay_budget > 0:
                replay_budget -= 1
                path, ok, info = replay(prop, feature, h, h.solver if h.solver != "cadical" else None, target_dir, timeout_s * 2)
                if ok:
                    log("VIOLATION property=%s replay=%s" % (prop, path))
                    violations_reported += 1
                    exit_code = 1
                else:
                    log("[%s] counterexample for %s did NOT reproduce natively (%s): encoding problem -> exit 2" % (prop, h.short, info))
                    broken.append((n, "counterexample does not replay: " + info))
            else:
                path = os.path.join(ROOT, "replays", prop, h.short.replace("::", "__"))
                os.makedirs(path, exist_ok=True)
                with open(os.path.join(path, "UNREPLAYED"), "w") as fo:
                    fo.write(descs + "\nre-run: bin/check %s %s --only %s\n" % (prop, tier, h.name))
                log("VIOLATION property=%s replay=%s" % (prop, path))
                violations_reported += 1
                exit_code = 1
        else:
            mv = fcs[0]
            log("[%s] SMT counterexample %s: %s" % (prop, n, mv["desc"]))
            log("VIOLATION property=%s replay=%s" % (prop, mv.get("replay", "")))
            violations_reported += 1
            exit_code = 1

    for n, d in broken:
        log("[%s] INCONCLUSIVE/BROKEN %s: %s" % (prop, n.split("::", 1)[-1], d if isinstance(d, str) else str(d)[:300]))
    for b in mir_broken:
        log("[%s] INCONCLUSIVE/BROKEN (engine M) %s" % (prop, b))
    if (broken or mir_broken) and exit_code == 0:
        exit_code = 2

    fns, _per = crate_functions(target_dir, list(results.keys()))
    wall_total = time.time() - t_start
    write_evidence(prop, tier, seed, cfg, results, verdicts, fns, wall_total, violations_reported,
                   known_lines=known_lines, mir=mir_report,
                   broken=("; ".join("%s: %s" % (n.split('::')[-1], str(d)[:120]) for n, d in broken) or None))
    log("[%s/%s] harnesses=%d ok=%d violations=%d known=%d inconclusive/broken=%d wall=%.0fs -> exit %d" %
        (prop, tier, len(results), n_ok, violations_reported, len(known_lines), len(broken) + len(mir_broken), wall_total, exit_code))
    return exit_code


def write_evidence(prop, tier, seed, cfg, results, verdicts, fns, wall, nviol, known_lines=None, mir=None, broken=None):
    hs = []
    solver_s = 0.0
    checks = 0
    nontrivial = 0
    for n, h in sorted(results.items()) if results else []:
        v = verdicts.get(n, ("?", ""))
        st = h.stats or {}
        ss = (st.get("runtime_solver_s") or 0.0) + (st.get("runtime_decision_procedure_s") or 0.0)
        solver_s += st.get("runtime_decision_procedure_s") or st.get("runtime_solver_s") or 0.0
        checks += (h.checks_total or 0)
        if v[0] == "ok" and (h.covers_sat or 0) >= 1 and (h.checks_total or 0) > 0:
            nontrivial += 1
        hs.append({
            "harness": h.short,
            "verdict": v[0],
            "detail": v[1] if isinstance(v[1], str) else [fc["desc"] for fc in v[1]],
            "solver": h.solver,
            "checks_total": h.checks_total,
            "checks_failed": h.checks_failed,
            "covers_satisfied": h.covers_sat,
            "verification_time_s": h.time_s,
            "symex_s": st.get("runtime_symex_s"),
            "solver_s": round(ss, 3),
            "vccs": st.get("vccs_generated"),
            "bounds": P.bounds_of(prop, h.short),
            "note": h.note,
        })
    mir_q = (mir or {}).get("queries", [])
    evaluations = len(hs) + len(mir_q)
    distinct = nontrivial + sum(1 for q in mir_q if q.get("result") in ("unsat", "holds"))
    samples = [{"harness": x["harness"], "bounds": x["bounds"], "verdict": x["verdict"]} for x in hs[:6]]
    samples += [{"smt_query": q.get("name"), "result": q.get("result")} for q in mir_q[:4]]
    ev = {
        "property_id": prop,
        "tier": tier,
        "seed": seed,
        "level": cfg.get("level", "model_checking"),
        "coverage": {
            "evaluations": max(evaluations, 0),
            "distinct_nontrivial": distinct,
            "rule": "one evaluation = one solver-decided query: a Kani/CBMC harness over the compiled crate "
                    "(shape concrete, contents symbolic; all its checks discharged by the SAT/SMT back end) or one "
                    "MIR->SMT query. Counted as distinct non-trivial only if the verdict was SUCCESSFUL with the "
                    "vacuity cover satisfied and at least one check present (SMT: unsat with the sanity twin sat). "
                    "Harness names are unique, so distinct == counted.",
            "samples": samples or [{"note": "no harness ran"}],
            "exhaustive": False,
            "explanation": cfg.get("explanation", ""),
            "technique": "bounded model checking of the compiled crate (Kani 0.68 / CBMC 6.11; SAT: cadical, SMT: z3) "
                         + ("+ MIR->SMT-LIB2 translation (z3, cvc5 cross-check)" if cfg.get("mir") else ""),
            "harnesses": hs,
            "functions_encoded": fns,
            "checks_discharged": checks,
            "solver_time_s": round(solver_s, 2),
            "bounds": cfg.get("bounds", ""),
            "outside_bounds": cfg.get("outside", ""),
            "known_findings_reported": known_lines or [],
            "engine_m": mir or None,
            "encoding_regenerated_from": "/repo working tree at run time (cargo kani rebuild; MIR dump of a scratch copy)",
        },
        "assumptions": cfg.get("assumptions", []),
        "wall_s": round(wall, 1),
        "violations": nviol,
    }
    if broken:
        ev["coverage"]["inconclusive"] = broken
    os.makedirs(os.path.join(ROOT, "evidence"), exist_ok=True)
    with open(os.path.join(ROOT, "evidence", "%s.json" % prop), "w") as fo:
        json.dump(ev, fo, indent=1)
