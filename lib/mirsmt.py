"""Engine M: rustc MIR -> SMT (z3), for loop-free scalar kernels of rust-vmm/acpi_tables.

The MIR is dumped from a scratch copy of /repo's *current working tree* on every run, twice:
  dev      -C overflow-checks=on   (arithmetic = *WithOverflow + assert)
  release  -C overflow-checks=off -C debug-assertions=off  (arithmetic wraps)
A small symbolic executor enumerates the paths of a function (no loops: a back edge makes the
function 'unsupported', which is reported as not discharged, never as success). Integers are
bit-vectors of their Rust width. Modelled callees: Vec::<u8>::{with_capacity,push},
<dyn AmlSink>::{byte,word,dword,qword}, usize::pow on constants, size_of, Option::unwrap_or,
From/Into widening; calls into other crate functions are inlined from the same dump.

Every query is decided by z3 (`unsat` of the negated property per path); each encoding is
cross-checked once with cvc5 through SMT-LIB2 text; a sanity twin (the path condition alone must be
`sat`) guards against vacuity; the crate's own unit-test vectors are pushed through the encoding.
"""
import os
import re
import shutil
import subprocess
import tempfile
import time

import z3

REPO = os.environ.get("VERIF_REPO") or "/repo"
WIDTH = {"u8": 8, "u16": 16, "u32": 32, "u64": 64, "usize": 64, "i32": 32, "bool": 1, "i64": 64, "isize": 64, "u128": 128}


# ------------------------------------------------------------------ MIR dump + parse
def dump_mir(profile):
    tmp = tempfile.mkdtemp(prefix="acpi_mir_")
    try:
        dst = os.path.join(tmp, "repo")
        shutil.copytree(REPO, dst, ignore=shutil.ignore_patterns("target", ".git"))
        flags = ["-Zunpretty=mir", "-C", "debug-assertions=off", "-C",
                 "overflow-checks=" + ("on" if profile == "dev" else "off")]
        env = dict(os.environ)
        env["CARGO_NET_OFFLINE"] = "true"
        env.pop("RUSTFLAGS", None)
        p = subprocess.run(["cargo", "+nightly", "rustc", "--offline", "--lib", "--target-dir", os.path.join(tmp, "t"), "--"] + flags,
                           cwd=dst, env=env, stdout=subprocess.PIPE, stderr=subprocess.PIPE, text=True)
        if p.returncode != 0 or "fn " not in p.stdout:
            raise RuntimeError("MIR dump failed: " + p.stderr[-500:])
        return p.stdout
    finally:
        shutil.rmtree(tmp, ignore_errors=True)


class Fn:
    def __init__(self, header):
        self.header = header
        self.name = header[3:header.index("(")]
        self.locals = {}
        self.blocks = {}
        m = re.match(r"fn .*?\((.*)\) -> (.*) \{$", header)
        self.params = []
        self.ret = m.group(2) if m else "()"
        if m and m.group(1).strip():
            for part in split_top(m.group(1)):
                k, t = part.split(":", 1)
                self.params.append((k.strip(), t.strip()))
                self.locals[k.strip()] = t.strip()
        self.locals["_0"] = self.ret


def split_top(s):
    out, depth, cur = [], 0, ""
    for ch in s:
        if ch in "<([":
            depth += 1
        elif ch in ">)]":
            depth -= 1
        if ch == "," and depth == 0:
            out.append(cur)
            cur = ""
        else:
            cur += ch
    if cur.strip():
        out.append(cur)
    return [x.strip() for x in out]


def parse_mir(text):
    fns, consts = [], {}
    cur, bb = None, None
    cname = None
    for line in text.splitlines():
        if line.startswith("fn "):
            cur = Fn(line)
            fns.append(cur)
            bb = None
            continue
        m = re.match(r"^const (.+?): (\w+) = const (-?\d+)_(\w+);$", line)
        if m:
            consts[m.group(1)] = (int(m.group(3)), m.group(4))
            continue
        m = re.match(r"^const ([\w:]+): (\w+) = \{", line)
        if m:
            cname = (m.group(1), m.group(2))
            cur = None
            continue
        if cname:
            m = re.match(r"\s+_0 = const (-?\d+)_(\w+);", line)
            if m:
                consts[cname[0]] = (int(m.group(1)), m.group(2))
            if line.startswith("}"):
                cname = None
            continue
        if cur is None:
            continue
        if line.startswith("}"):
            cur = None
            continue
        m = re.match(r"^\s+let (?:mut )?(_\d+): (.*);$", line)
        if m:
            cur.locals[m.group(1)] = m.group(2)
            continue
        m = re.match(r"^\s+(bb\d+)(?: \(cleanup\))?: \{$", line)
        if m:
            bb = m.group(1)
            cur.blocks[bb] = []
            continue
        if bb and line.strip() == "}":
            bb = None
            continue
        if bb:
            cur.blocks[bb].append(line.strip())
    return fns, consts


# ------------------------------------------------------------------ symbolic values
class Sink:
    def __init__(self):
        self.trace = []  # list of BitVec(8)


class VecObj:
    def __init__(self):
        self.items = []


class Obj:
    """struct value: field index -> value"""
    def __init__(self, fields):
        self.f = dict(fields)


class Ref:
    def __init__(self, frame, local):
        self.frame, self.local = frame, local


class Unsupported(Exception):
    pass


class AnyConst:
    """a named constant whose value the query does not depend on (fresh symbol of the peer operand's width)"""
    n = 0


class StrObj:
    """&str of symbolic length"""
    def __init__(self, n):
        self.n = n


class Path:
    def __init__(self):
        self.cond = []
        self.frames = []
        self.outcome = None  # ('return', value) | ('panic', msg)


def clone_val(v, memo):
    if isinstance(v, (Sink, VecObj, Obj)):
        if id(v) in memo:
            return memo[id(v)]
        if isinstance(v, Sink):
            n = Sink()
            memo[id(v)] = n
            n.trace = list(v.trace)
        elif isinstance(v, VecObj):
            n = VecObj()
            memo[id(v)] = n
            n.items = list(v.items)
        else:
            n = Obj({})
            memo[id(v)] = n
            n.f = {k: clone_val(x, memo) for k, x in v.f.items()}
        return n
    if isinstance(v, list):
        return [clone_val(x, memo) for x in v]
    return v


def bv(val, ty):
    return z3.BitVecVal(val, WIDTH[ty])


ENCODED = set()


class Exec:
    def __init__(self, fns, consts, max_paths=4000):
        self.fns = fns
        self.consts = consts
        self.max_paths = max_paths
        self.paths = []

    def find(self, pred):
        c = [f for f in self.fns if pred(f)]
        if len(c) != 1:
            raise Unsupported("function lookup matched %d candidates" % len(c))
        return c[0]

    # ---- places / operands
    def read_place(self, frame, place):
        place = place.strip()
        m = re.match(r"^\((\(?\*?_\d+\)?(?:\.\d+)+): .+\)$", place)
        if m:
            inner = m.group(1)
            base, fld = inner.rsplit(".", 1)
            b = self.read_place(frame, base)
            if isinstance(b, Obj):
                return b.f[int(fld)]
            if isinstance(b, list):
                return b[int(fld)]
            raise Unsupported("field of non-aggregate: " + place)
        m = re.match(r"^\(\*(_\d+)\)$", place)
        if m:
            r = frame[m.group(1)]
            return self.deref(r)
        if re.match(r"^_\d+$", place):
            return frame[place]
        raise Unsupported("place: " + place)

    def deref(self, r):
        if isinstance(r, Ref):
            return r.frame[r.local]
        return r  # references to scalars/objects passed by the driver are the value itself

    def write_place(self, frame, place, val):
        place = place.strip()
        m = re.match(r"^\((\(?\*?_\d+\)?(?:\.\d+)+): .+\)$", place)
        if m:
            base, fld = m.group(1).rsplit(".", 1)
            b = self.read_place(frame, base)
            if isinstance(b, Obj):
                b.f[int(fld)] = val
                return
            raise Unsupported("write field: " + place)
        m = re.match(r"^\(\*(_\d+)\)$", place)
        if m:
            r = frame[m.group(1)]
            if isinstance(r, Ref):
                r.frame[r.local] = val
                return
            raise Unsupported("write through opaque ref")
        frame[place] = val

    def operand(self, frame, op):
        op = op.strip()
        if op.startswith("copy ") or op.startswith("move "):
            return self.read_place(frame, op[5:])
        m = re.match(r"^const (-?\d+)_(\w+)$", op)
        if m:
            return bv(int(m.group(1)), m.group(2))
        if op.startswith("const ZeroSized"):
            return Obj({})
        if op.startswith("const ") and "{constant#" in op:
            return AnyConst()
        if op.startswith("const ") and re.match(r"^const [\w:<> ]*::([A-Z_][A-Z0-9_]*)$", op):
            short = op.split("::")[-1]
            vals = {v for k, v in self.consts.items() if k.split("::")[-1] == short}
            if len(vals) == 1:
                v, t = list(vals)[0]
                return bv(v, t)
        if op == "const true":
            return z3.BoolVal(True)
        if op == "const false":
            return z3.BoolVal(False)
        m = re.match(r"^const core::num::<impl (u8|u16|u32|u64|usize)>::MAX$", op)
        if m:
            return bv((1 << WIDTH[m.group(1)]) - 1, m.group(1))
        m = re.match(r"^const (u8|u16|u32|u64|usize)::MAX$", op)
        if m:
            return bv((1 << WIDTH[m.group(1)]) - 1, m.group(1))
        if re.match(r"^const .*::promoted\[\d+\]$", op):
            return Obj({})  # promoted reference to a unit struct (ZERO / ONE)
        m = re.match(r"^const ([\w:]+)$", op)
        if m and m.group(1) in self.consts:
            v, t = self.consts[m.group(1)]
            return bv(v, t)
        if m and ("crate::" + m.group(1)) in self.consts:
            v, t = self.consts["crate::" + m.group(1)]
            return bv(v, t)
        if m:
            short = m.group(1).split("::")[-1]
            cands = [k for k in self.consts if k.split("::")[-1] == short]
            if len(cands) == 1:
                v, t = self.consts[cands[0]]
                return bv(v, t)
            if short in ("ZERO", "ONE", "ONES"):
                return Obj({})
        raise Unsupported("operand: " + op)

    def rvalue(self, fn, frame, dst, rhs):
        rhs = rhs.strip()
        if rhs.startswith("no_retag "):
            rhs = rhs[len("no_retag "):]
        m = re.match(r"^(\w+)\((.*)\)$", rhs)
        ty = fn.locals.get(dst, "")
        if m and m.group(1) in ("Add", "Sub", "Mul", "BitAnd", "BitOr", "BitXor", "Shl", "Shr", "Lt", "Le", "Gt", "Ge", "Eq", "Ne",
                                "AddWithOverflow", "SubWithOverflow", "MulWithOverflow", "Not", "AddUnchecked", "SubUnchecked", "Rem", "Div"):
            args = [self.operand(frame, a) for a in split_top(m.group(2))]
            op = m.group(1)
            if op == "Not":
                a = args[0]
                return z3.Not(a) if z3.is_bool(a) else ~a
            a, b = args
            if isinstance(a, AnyConst):
                AnyConst.n += 1
                a = z3.BitVec("anyconst_%d" % AnyConst.n, b.size())
            if isinstance(b, AnyConst):
                AnyConst.n += 1
                b = z3.BitVec("anyconst_%d" % AnyConst.n, a.size())
            if op == "Rem":
                return z3.URem(a, b)
            if op == "Div":
                return z3.UDiv(a, b)
            if op in ("Shl", "Shr"):
                if b.size() != a.size():
                    b = z3.ZeroExt(a.size() - b.size(), b) if b.size() < a.size() else z3.Extract(a.size() - 1, 0, b)
                return a << b if op == "Shl" else z3.LShR(a, b)
            if op in ("Add", "AddUnchecked"):
                return a + b
            if op in ("Sub", "SubUnchecked"):
                return a - b
            if op == "Mul":
                return a * b
            if op == "BitAnd":
                return (z3.And(a, b) if z3.is_bool(a) else a & b)
            if op == "BitOr":
                return (z3.Or(a, b) if z3.is_bool(a) else a | b)
            if op == "BitXor":
                return (z3.Xor(a, b) if z3.is_bool(a) else a ^ b)
            if op == "Lt":
                return z3.ULT(a, b)
            if op == "Le":
                return z3.ULE(a, b)
            if op == "Gt":
                return z3.UGT(a, b)
            if op == "Ge":
                return z3.UGE(a, b)
            if op == "Eq":
                return a == b
            if op == "Ne":
                return a != b
            w = a.size()
            if op == "AddWithOverflow":
                wide = z3.ZeroExt(1, a) + z3.ZeroExt(1, b)
                return [a + b, z3.Extract(w, w, wide) == 1]
            if op == "SubWithOverflow":
                return [a - b, z3.ULT(a, b)]
            if op == "MulWithOverflow":
                wide = z3.ZeroExt(w, a) * z3.ZeroExt(w, b)
                return [a * b, z3.Extract(2 * w - 1, w, wide) != 0]
        m = re.match(r"^(.*) as (\w+) \(IntToInt\)$", rhs)
        if m:
            v = self.operand(frame, m.group(1))
            if z3.is_bool(v):
                v = z3.If(v, z3.BitVecVal(1, 8), z3.BitVecVal(0, 8))
            tw = WIDTH[m.group(2)]
            if v.size() > tw:
                return z3.Extract(tw - 1, 0, v)
            if v.size() < tw:
                return z3.ZeroExt(tw - v.size(), v)
            return v
        m = re.match(r"^&(?:mut )?(_\d+)$", rhs)
        if m:
            return Ref(frame, m.group(1))
        m = re.match(r"^&(?:mut )?\(\*(_\d+)\)$", rhs)
        if m:
            return frame[m.group(1)]
        if rhs.startswith("copy ") or rhs.startswith("move ") or rhs.startswith("const "):
            return self.operand(frame, rhs)
        m = re.match(r"^discriminant\((.*)\)$", rhs)
        if m:
            raise Unsupported("discriminant")
        raise Unsupported("rvalue: " + rhs)

    # ---- calls
    def call(self, fn, frame, callee, args, path, depth):
        a = [self.operand(frame, x) for x in args]
        if re.match(r"^Vec::<u8>::with_capacity$", callee):
            return VecObj()
        if callee == "Vec::<u8>::push":
            self.deref(a[0]).items.append(a[1])
            return None
        if callee == "core::num::<impl usize>::pow":
            base, e = a[0], a[1]
            if z3.is_bv_value(base) and z3.is_bv_value(e):
                return z3.BitVecVal(base.as_long() ** e.as_long(), 64)
            raise Unsupported("pow on non-constants")
        m = re.match(r"^core::num::<impl (\w+)>::wrapping_(add|sub)$", callee)
        if m:
            return a[0] + a[1] if m.group(2) == "add" else a[0] - a[1]
        m = re.match(r"^core::mem::size_of::<(\w+)>$", callee)
        if m:
            return z3.BitVecVal(WIDTH[m.group(1)] // 8, 64)
        m = re.match(r"^<dyn AmlSink as AmlSink>::(byte|word|dword|qword)$", callee)
        if m:
            sink = self.deref(a[0])
            v = a[1]
            n = {"byte": 1, "word": 2, "dword": 4, "qword": 8}[m.group(1)]
            for i in range(n):
                sink.trace.append(z3.Extract(8 * i + 7, 8 * i, v))
            return None
        if callee == "core::str::<impl str>::len":
            return self.deref(a[0]).n
        if callee == "core::str::<impl str>::as_bytes":
            return ("bytes", self.deref(a[0]).n)
        if callee == "<dyn AmlSink as AmlSink>::vec" and isinstance(a[1], tuple) and a[1][0] == "bytes":
            self.deref(a[0]).trace.append(("opaque", a[1][1]))
            return None
        m = re.match(r"^(\w+)::len$", callee)
        if m:
            t = m.group(1)
            target = self.find(lambda f: f.name.endswith("::len") and f.params and f.params[0][1] == "&" + t)
            return ("inline", target, a)
        m = re.match(r"^core::num::<impl (\w+)>::checked_(add|sub)$", callee)
        if m:
            x, y = a[0], a[1]
            w = x.size()
            if m.group(2) == "add":
                ovf = z3.Extract(w, w, z3.ZeroExt(1, x) + z3.ZeroExt(1, y)) == 1
                return Obj({"some": z3.Not(ovf), "val": x + y})
            return Obj({"some": z3.UGE(x, y), "val": x - y})
        m = re.match(r"^Option::<(\w+)>::and_then::<.*\{closure@([^ }]+)", callee)
        if m:
            opt = a[0]
            key = "closure@" + m.group(2).rstrip(":")
            key = key.split(" ")[0]
            cands = [f for f in self.fns if "{closure#" in f.name and any(key.split(": ")[0] in t for _k, t in f.params)]
            if len(cands) != 1:
                raise Unsupported("and_then closure lookup (%d candidates)" % len(cands))
            sub = Exec(self.fns, self.consts)
            paths = sub.run(cands[0], [Obj({}), opt.f["val"]])
            rets = [p for p in paths if p["panic"] is None]
            if len(paths) != 1 or len(rets) != 1 or rets[0]["cond"]:
                raise Unsupported("and_then closure is not straight-line")
            res = rets[0]["ret"]
            return Obj({"some": z3.And(opt.f["some"], res.f["some"]), "val": res.f["val"]})
        m = re.match(r"^Option::<(\w+)>::unwrap$", callee)
        if m:
            return ("unwrap", a[0])
        m = re.match(r"^Option::<(\w+)>::unwrap_or$", callee)
        if m:
            opt = a[0]
            return z3.If(opt.f["some"], opt.f["val"], a[1])
        m = re.match(r"^<(\w+) as (?:Into|From)<(\w+)>>::(?:into|from)$", callee)
        if m:
            src = a[0]
            tw = WIDTH[m.group(2) if "Into" in callee else m.group(1)]
            return z3.ZeroExt(tw - src.size(), src) if src.size() < tw else src
        # crate functions, inlined
        target = None
        m = re.match(r"^<(\w+) as Aml>::to_aml_bytes$", callee)
        if m:
            t = m.group(1)
            target = self.find(lambda f: f.name.endswith("::to_aml_bytes") and f.params and f.params[0][1] in ("&" + t, "&aml::" + t))
        m = re.match(r"^<aml::(\w+) as Aml>::to_aml_bytes$", callee)
        if m:
            t = m.group(1)
            target = self.find(lambda f: f.name.endswith("::to_aml_bytes") and f.params and f.params[0][1] in ("&" + t, "&aml::" + t))
        m2 = re.match(r"^aml::AddressSpace::<(\w+)>::push_header$", callee)
        if m2:
            # contains a loop over to_le_bytes(): modelled as an opaque callee emitting its 6 header bytes
            sink = self.deref(a[1])
            for i in range(6):
                sink.trace.append(z3.BitVec("push_header_byte_%d" % i, 8))
            return None
        if callee == "create_pkg_length" or callee.endswith("::create_pkg_length"):
            target = self.find(lambda f: f.name == "aml::create_pkg_length" or f.name == "create_pkg_length")
        if target is None:
            raise Unsupported("callee: " + callee)
        if depth > 8:
            raise Unsupported("inline depth")
        return ("inline", target, a)

    # ---- execution
    def run(self, fn, args):
        """args: list of values for the parameters. Returns list of finished paths:
        dicts with cond (list of z3 bools), ret, panic (str or None)"""
        self.done = []
        ENCODED.add(re.sub(r"<impl at [^>]*>", "<impl>", fn.name) + "(" + ", ".join(t for _k, t in fn.params) + ")")
        frame = {k: v for (k, _t), v in zip(fn.params, args)}
        self._exec(fn, frame, "bb0", [], 0, lambda fr, cond: self.done.append({"cond": cond, "ret": fr.get("_0"), "panic": None, "frame": fr}), set())
        return self.done

    def _exec(self, fn, frame, bb, cond, depth, on_return, visiting):
        if len(self.done) > self.max_paths:
            raise Unsupported("too many paths")
        if (id(frame), bb) in visiting:
            raise Unsupported("loop (back edge) in " + fn.name)
        visiting = visiting | {(id(frame), bb)}
        stmts = fn.blocks[bb]
        for st in stmts:
            if st.startswith("StorageLive") or st.startswith("StorageDead") or st.startswith("nop") or st.startswith("FakeRead") \
                    or st.startswith("PlaceMention") or st.startswith("AscribeUserType") or st.startswith("Retag") or st.startswith("Coverage"):
                continue
            if st == "return;":
                on_return(frame, cond)
                return
            if st.startswith("goto -> "):
                return self._exec(fn, frame, st[8:].rstrip(";"), cond, depth, on_return, visiting)
            if st.startswith("unreachable"):
                return
            if st.startswith("resume") or st.startswith("drop("):
                m = re.search(r"-> \[return: (bb\d+)", st)
                if m:
                    return self._exec(fn, frame, m.group(1), cond, depth, on_return, visiting)
                return
            m = re.match(r"^switchInt\((.*)\) -> \[(.*)\];$", st)
            if m:
                v = self.operand(frame, m.group(1))
                arms = [x.strip() for x in m.group(2).split(",")]
                taken = []
                for arm in arms:
                    k, tgt = [x.strip() for x in arm.split(":")]
                    if k == "otherwise":
                        c = z3.And([z3.Not(t) for t in taken]) if taken else z3.BoolVal(True)
                    else:
                        if z3.is_bool(v):
                            c = z3.Not(v) if int(k) == 0 else v
                        else:
                            c = v == z3.BitVecVal(int(k), v.size())
                        taken.append(c)
                    c = z3.simplify(c)
                    if z3.is_false(c):
                        continue
                    memo = {}
                    fr2 = self._clone_frame(frame, memo) if not z3.is_true(c) else frame
                    self._exec(fn, fr2, tgt, cond + ([] if z3.is_true(c) else [c]), depth, self._rebind(on_return, memo), visiting)
                return
            m = re.match(r"^assert\((!?)(.*?), \"(.*?)\".*\) -> \[success: (bb\d+)", st)
            if m:
                v = self.operand(frame, m.group(2))
                ok = z3.Not(v) if m.group(1) == "!" else v
                ok = z3.simplify(ok)
                if not z3.is_true(ok):
                    self.done.append({"cond": cond + [z3.Not(ok)], "ret": None, "panic": m.group(3), "frame": frame})
                if z3.is_false(ok):
                    return
                return self._exec(fn, frame, m.group(4), cond + ([] if z3.is_true(ok) else [ok]), depth, on_return, visiting)
            if re.match(r"^.+? = (?:core::panicking::)?(?:panic|panic_fmt|assert_failed)\w*(?:::<[^>]*>)?\(.*\) -> .*;$", st):
                mm = re.search(r'const "(.*?)"', st)
                self.done.append({"cond": cond, "ret": None, "panic": mm.group(1) if mm else "panic", "frame": frame})
                return
            m = re.match(r"^(.+?) = (.+?)\((.*)\) -> \[return: (bb\d+).*\];$", st)
            if m and not re.match(r"^(Add|Sub|Mul|BitAnd|BitOr|BitXor|Shl|Shr|Lt|Le|Gt|Ge|Eq|Ne|Not|\w+WithOverflow)$", m.group(2).strip()):
                dst, callee, argstr, nxt = m.group(1).strip(), m.group(2).strip(), m.group(3), m.group(4)
                r = self.call(fn, frame, callee, split_top(argstr), None, depth)
                if isinstance(r, tuple) and r and r[0] == "unwrap":
                    opt = r[1]
                    some = z3.simplify(opt.f["some"])
                    if not z3.is_true(some):
                        self.done.append({"cond": cond + [z3.Not(some)], "ret": None, "panic": "called `Option::unwrap()` on a `None` value", "frame": frame})
                    if z3.is_false(some):
                        return
                    self.write_place(frame, dst, opt.f["val"])
                    return self._exec(fn, frame, nxt, cond + ([] if z3.is_true(some) else [some]), depth, on_return, visiting)
                if isinstance(r, tuple) and r and r[0] == "inline":
                    _tag, target, a = r
                    ENCODED.add(re.sub(r"<impl at [^>]*>", "<impl>", target.name) + "(" + ", ".join(t for _k, t in target.params) + ")")
                    fr2 = {k: v for (k, _t), v in zip(target.params, a)}

                    def cont(cfr, ccond, dst=dst, nxt=nxt, frame=frame):
                        # the caller frame may have been cloned along the way: it travels in cfr['__caller']
                        caller = cfr.get("__caller", frame)
                        if dst != "_" and "_0" in cfr:
                            self.write_place(caller, dst, cfr["_0"])
                        self._exec(fn, caller, nxt, ccond, depth, on_return, set())
                    fr2["__caller"] = frame
                    self._exec(target, fr2, "bb0", cond, depth + 1, cont, set())
                    return
                if r is not None:
                    self.write_place(frame, dst, r)
                return self._exec(fn, frame, nxt, cond, depth, on_return, visiting)
            m = re.match(r"^(.+?) = (.+);$", st)
            if m:
                self.write_place(frame, m.group(1), self.rvalue(fn, frame, m.group(1).strip(), m.group(2)))
                continue
            raise Unsupported("statement: " + st)
        raise Unsupported("block without terminator: " + bb)

    def _clone_frame(self, frame, memo):
        if id(frame) in memo:
            return memo[id(frame)]
        n = {}
        memo[id(frame)] = n
        for k, v in frame.items():
            if k == "__caller":
                n[k] = self._clone_frame(v, memo)
            elif isinstance(v, Ref):
                n[k] = Ref(self._clone_frame(v.frame, memo), v.local)
            else:
                n[k] = clone_val(v, memo)
        return n

    def _rebind(self, on_return, memo):
        return on_return


# ------------------------------------------------------------------ solver helpers
def decide(constraints, timeout_ms=60000):
    s = z3.Solver()
    s.set("timeout", timeout_ms)
    s.add(*constraints)
    r = s.check()
    return str(r), (s.model() if r == z3.sat else None), s


def cvc5_crosscheck(solver_obj):
    smt = "(set-logic ALL)\n" + solver_obj.to_smt2()
    try:
        p = subprocess.run(["cvc5", "--lang", "smt2", "--tlimit", "60000"], input=smt, stdout=subprocess.PIPE, stderr=subprocess.STDOUT, text=True, timeout=90)
        out = p.stdout.strip().splitlines()
        if any("(error" in l for l in out):
            return "error"
        return out[0] if out else "none"
    except Exception as e:  # noqa
        return "unavailable"


class Report:
    def __init__(self):
        self.queries = []
        self.violations = []
        self.broken = []
        self.t0 = time.time()

    def q(self, name, result, detail="", secs=0.0, cvc5=None):
        self.queries.append({"name": name, "result": result, "detail": detail, "solver_s": round(secs, 3), "cvc5": cvc5})


# ------------------------------------------------------------------ spec-side decoders over symbolic bytes
def dec_pkglen(tr):
    """tr: python list of BitVec(8) of concrete length n. returns (value as BV64, format_ok Bool)"""
    n = len(tr)
    lead = tr[0]
    if n == 1:
        return z3.ZeroExt(56, lead & 0x3f), z3.Extract(7, 6, lead) == 0
    val = z3.ZeroExt(56, lead & 0x0f)
    for i in range(1, n):
        val = val | (z3.ZeroExt(56, tr[i]) << (4 + 8 * (i - 1)))
    fmt = z3.And(z3.Extract(7, 6, lead) == n - 1, (lead & 0x30) == 0)
    return val, fmt


PKG_MAX = {1: 63, 2: (1 << 12) - 1, 3: (1 << 20) - 1, 4: (1 << 28) - 1}


def check_paths(rep, name, paths, domain, prop_of_path, allow_panic=False, crosscheck=False):
    """for each returning path: domain & cond & !prop must be unsat. A panic path inside the domain is a
    violation unless allow_panic. Returns number of returning paths checked."""
    nret = 0
    for i, p in enumerate(paths):
        t0 = time.time()
        if p["panic"] is not None:
            r, model, s = decide(domain + p["cond"])
            if r == "sat" and not allow_panic:
                rep.violations.append({"query": name, "desc": "panics on an in-domain input: %s; witness %s" % (p["panic"], model)})
                rep.q("%s/path%d-panic" % (name, i), "sat", str(model), time.time() - t0)
            elif r == "unknown":
                rep.broken.append("%s/path%d: solver unknown" % (name, i))
            continue
        nret += 1
        prop = prop_of_path(p)
        r, model, s = decide(domain + p["cond"] + [z3.Not(prop)])
        cv = cvc5_crosscheck(s) if crosscheck else None
        if r == "unsat":
            # vacuity twin: the path must be feasible at all, or say so
            r2, _m, _s = decide(domain + p["cond"])
            rep.q("%s/path%d" % (name, i), "unsat", "feasible=%s" % r2, time.time() - t0, cv)
            if cv not in (None, "unsat", "unavailable"):
                rep.broken.append("%s/path%d: z3 says unsat, cvc5 says %s" % (name, i, cv))
        elif r == "sat":
            rep.q("%s/path%d" % (name, i), "sat", str(model), time.time() - t0, cv)
            rep.violations.append({"query": name, "desc": "counterexample %s" % model, "model": model})
        else:
            rep.broken.append("%s/path%d: solver %s" % (name, i, r))
    return nret


# ------------------------------------------------------------------ per-property drivers
def drive_c07(rep, profile, ex):
    fn = ex.find(lambda f: f.name.endswith("create_pkg_length"))
    ln = z3.BitVec("len", 64)
    inc = z3.Bool("include_self")
    paths = ex.run(fn, [ln, inc])

    def prop(p):
        tr = p["ret"].items
        n = len(tr)
        val, fmt = dec_pkglen(tr)
        expected = z3.If(inc, ln + n, ln)
        minimal = z3.BoolVal(True)
        for k in range(1, n):
            minimal = z3.And(minimal, z3.Or(z3.Not(inc), z3.UGT(ln + k, PKG_MAX[k])))
        return z3.And(n >= 1, n <= 4, fmt, val == expected, minimal)

    domain = [z3.If(inc, z3.ULT(ln, (1 << 28) - 4), z3.ULT(ln, 1 << 28))]
    n = check_paths(rep, "C07/%s/create_pkg_length" % profile, paths, domain, prop, crosscheck=True)
    # translator validation: the crate's own test vectors (test_pkg_length)
    for (l, want) in [(62, [63]), (64, [1 << 6 | (66 & 0xf), 66 >> 4]), (4096, [2 << 6 | (4099 & 0xf), (4099 >> 4) & 0xff, (4099 >> 12) & 0xff])]:
        ok = False
        for p in paths:
            if p["panic"] is None:
                s = z3.Solver()
                s.add(ln == l, inc, *p["cond"])
                if s.check() == z3.sat:
                    m = s.model()
                    got = [m.eval(b, model_completion=True).as_long() for b in p["ret"].items]
                    ok = got == want
        rep.q("C07/%s/test-vector len=%d" % (profile, l), "holds" if ok else "MISMATCH", str(want))
        if not ok:
            rep.broken.append("translator validation failed on test_pkg_length vector %d" % l)
    return n


def int_fn(ex, ty):
    return ex.find(lambda f: f.name.endswith("::to_aml_bytes") and f.params and f.params[0][1] == "&" + ty)


def ref_int(v):
    """reference encoding as (cond, bytes) cases over a 64-bit value"""
    b = lambda i: z3.Extract(8 * i + 7, 8 * i, v)  # noqa
    return [
        (v == 0, [z3.BitVecVal(0, 8)]),
        (v == 1, [z3.BitVecVal(1, 8)]),
        (z3.And(z3.UGT(v, 1), z3.ULE(v, 0xff)), [z3.BitVecVal(0x0a, 8), b(0)]),
        (z3.And(z3.UGT(v, 0xff), z3.ULE(v, 0xffff)), [z3.BitVecVal(0x0b, 8), b(0), b(1)]),
        (z3.And(z3.UGT(v, 0xffff), z3.ULE(v, 0xffffffff)), [z3.BitVecVal(0x0c, 8)] + [b(i) for i in range(4)]),
        (z3.UGT(v, 0xffffffff), [z3.BitVecVal(0x0e, 8)] + [b(i) for i in range(8)]),
    ]


def drive_c08(rep, profile, ex):
    total = 0
    for ty in ("u8", "u16", "u32", "u64", "usize"):
        fn = int_fn(ex, ty)
        x = z3.BitVec("v_" + ty, WIDTH[ty])
        sink = Sink()
        paths = ex.run(fn, [x, sink])
        v64 = z3.ZeroExt(64 - x.size(), x) if x.size() < 64 else x

        def prop(p, v64=v64):
            tr = None
            for k, val in p["frame"].items():
                pass
            tr = find_sink(p["frame"]).trace
            alts = []
            for c, bs in ref_int(v64):
                if len(bs) == len(tr):
                    alts.append(z3.And(c, *[a == b for a, b in zip(tr, bs)]))
            return z3.Or(alts) if alts else z3.BoolVal(False)
        total += check_paths(rep, "C08/%s/%s::to_aml_bytes" % (profile, ty), paths, [], prop, crosscheck=(ty == "u64"))
    return total


def find_sink(frame):
    seen = set()

    def walk(fr):
        if id(fr) in seen:
            return None
        seen.add(id(fr))
        for k, v in fr.items():
            if isinstance(v, Sink):
                return v
            if isinstance(v, Ref):
                t = v.frame.get(v.local)
                if isinstance(t, Sink):
                    return t
            if k == "__caller":
                r = walk(v)
                if r:
                    return r
        return None
    return walk(frame)


def drive_c17(rep, profile, ex):
    n = 0
    s0 = z3.BitVec("state", 8)
    b = z3.BitVec("b", 8)
    for meth, spec in (("add", lambda: s0 + b), ("sub", lambda: s0 - b)):
        fn = ex.find(lambda f, meth=meth: f.name.endswith("::" + meth) and f.params and f.params[0][1] == "&mut Checksum")
        obj = Obj({0: s0})
        paths = ex.run(fn, [obj, b])

        def prop(p, spec=spec):
            o = [v for v in p["frame"].values() if isinstance(v, Obj)][0]
            return o.f[0] == spec()
        n += check_paths(rep, "C17/%s/Checksum::%s" % (profile, meth), paths, [], prop, crosscheck=True)
    fn = ex.find(lambda f: f.name.endswith("::value") and f.params and f.params[0][1] == "&Checksum")
    paths = ex.run(fn, [Obj({0: s0})])
    n += check_paths(rep, "C17/%s/Checksum::value" % profile, paths, [], lambda p: p["ret"] + s0 == 0, crosscheck=True)
    return n


def drive_c18_ranges(rep, profile, ex):
    """AddressSpace<uN>::to_aml_bytes: is there an input for which the function RETURNS and the emitted
    length differs from the true size of [min, max]?  (release: wraps; dev: overflow assert refuses)"""
    n = 0
    for ty in ("u16", "u32", "u64"):
        w = WIDTH[ty]
        fn = ex.find(lambda f, ty=ty: f.name.endswith("::to_aml_bytes") and f.params and f.params[0][1] == "&aml::AddressSpace<%s>" % ty)
        mn, mx, tr = z3.BitVec("min", w), z3.BitVec("max", w), z3.BitVec("translation", w)
        has = z3.Bool("has_translation")
        tflags = z3.BitVec("type_flags", 8)
        kind = z3.BitVec("type", 8)
        obj = Obj({0: kind, 1: mn, 2: mx, 3: tflags, 4: Obj({"some": has, "val": tr})})
        sink = Sink()
        try:
            paths = ex.run(fn, [obj, sink])
        except Unsupported as e:
            rep.broken.append("C18/%s/AddressSpace<%s>: %s" % (profile, ty, e))
            continue
        for i, p in enumerate(paths):
            if p["panic"] is not None:
                continue
            t = find_sink(p["frame"]).trace
            nb = w // 8
            length = z3.Concat(*reversed(t[-nb:]))
            true_size = z3.ZeroExt(8, mx) - z3.ZeroExt(8, mn) + 1
            bad = z3.Or(z3.UGT(mn, mx), z3.ZeroExt(8, length) != true_size)
            t0 = time.time()
            r, model, s = decide(p["cond"] + [bad])
            n += 1
            if r == "sat":
                rep.q("C18/%s/AddressSpace<%s> returns with wrong length" % (profile, ty), "sat", str(model), time.time() - t0)
                mnv = model.eval(mn, model_completion=True).as_long()
                mxv = model.eval(mx, model_completion=True).as_long()
                rep.violations.append({"query": "C18/%s/AddressSpace<%s>" % (profile, ty),
                                       "desc": "returns a range length that is not max-min+1 (wraps instead of refusing): %s" % model,
                                       "profile": profile,
                                       "replay_rs": REPLAY_RANGE % {"ty": ty, "min": mnv, "max": mxv, "nb": w // 8}})
            elif r == "unsat":
                rep.q("C18/%s/AddressSpace<%s> never returns a wrong length" % (profile, ty), "unsat", "", time.time() - t0)
            else:
                rep.broken.append("C18 AddressSpace<%s>: solver %s" % (ty, r))
    return n


REPLAY_RANGE = """// replay of an SMT counterexample: the call must panic (refuse) or emit length == max-min+1
use acpi_tables::{aml, Aml};
#[test]
fn replay() {
    let min: %(ty)s = %(min)d;
    let max: %(ty)s = %(max)d;
    let r = std::panic::catch_unwind(|| {
        let mut v: Vec<u8> = Vec::new();
        aml::AddressSpace::new_io(min, max, None).to_aml_bytes(&mut v);
        v
    });
    if let Ok(v) = r {
        let n = v.len();
        let mut len: u128 = 0;
        for i in 0..%(nb)d { len |= (v[n - %(nb)d + i] as u128) << (8 * i); }
        assert!(min <= max && len == (max as u128) - (min as u128) + 1,
            "returned range length {} for min={} max={}", len, min, max);
    }
}
"""

def drive_c18_pkglen(rep, profile, ex):
    """create_pkg_length must not RETURN for a length whose total is >= 2^28 (both profiles)"""
    fn = ex.find(lambda f: f.name.endswith("create_pkg_length"))
    ln = z3.BitVec("len", 64)
    inc = z3.Bool("include_self")
    paths = ex.run(fn, [ln, inc])
    out_of_domain = z3.If(inc, z3.UGE(ln, (1 << 28) - 4), z3.UGE(ln, 1 << 28))
    n = 0
    for i, p in enumerate(paths):
        if p["panic"] is not None:
            continue
        tr = p["ret"].items
        val, fmt = dec_pkglen(tr)
        wrong = val != z3.If(inc, ln + len(tr), ln)
        t0 = time.time()
        r, model, s = decide(p["cond"] + [out_of_domain, wrong])
        n += 1
        name = "C18/%s/create_pkg_length returns a PkgLength that does not decode to the length given (len >= 2^28)/path%d" % (profile, i)
        if r == "sat":
            rep.q(name, "sat", str(model), time.time() - t0)
            rep.violations.append({"query": "C18/%s/create_pkg_length" % profile, "desc": "returns a wrong PkgLength instead of refusing: %s" % model, "profile": profile})
        elif r == "unsat":
            rep.q(name, "unsat", "", time.time() - t0)
        else:
            rep.broken.append(name + ": solver " + r)
    return n


def drive_c18_isa(rep, profile, ex):
    """RHCT IsaStringNode::to_aml_bytes over a string of symbolic length n: if it RETURNS, the 16-bit node
    length must equal the bytes emitted and the 16-bit string length must equal n + 1 (no truncation).
    The witness of a failure is a string length of ~64 KiB, which no CBMC harness can materialise."""
    fn = ex.find(lambda f: f.name.endswith("::to_aml_bytes") and f.params and f.params[0][1] == "&IsaStringNode")
    n = z3.BitVec("isa_string_len", 64)
    obj = Obj({0: StrObj(n)})
    sink = Sink()
    paths = ex.run(fn, [obj, sink])
    dom = [z3.ULT(n, 1 << 40)]
    cnt = 0
    for i, p in enumerate(paths):
        if p["panic"] is not None:
            continue
        tr = find_sink(p["frame"]).trace
        emitted = z3.BitVecVal(0, 64)
        flat = []
        for t in tr:
            if isinstance(t, tuple) and t[0] == "opaque":
                emitted = emitted + t[1]
            else:
                emitted = emitted + 1
                flat.append(t)
        # layout: type(2) length(2) revision(2) strlen(2) <string> NUL [pad]
        node_len = z3.ZeroExt(48, z3.Concat(flat[3], flat[2]))
        str_len = z3.ZeroExt(48, z3.Concat(flat[7], flat[6]))
        ok = z3.And(node_len == emitted, str_len == n + 1, z3.URem(emitted, 2) == 0)
        t0 = time.time()
        r, model, s = decide(dom + p["cond"] + [z3.Not(ok)])
        cnt += 1
        name = "C18/%s/IsaStringNode::to_aml_bytes returns with a truncated 16-bit length/path%d" % (profile, i)
        if r == "sat":
            nv = model.eval(n, model_completion=True).as_long()
            rep.q(name, "sat", "isa_string_len = %d" % nv, time.time() - t0)
            rep.violations.append({"query": "C18/%s/IsaStringNode" % profile, "profile": profile,
                                   "desc": "returns a node whose 16-bit length fields disagree with the content for an ISA string of %d bytes" % nv,
                                   "replay_rs": REPLAY_ISA % {"n": nv}})
        elif r == "unsat":
            r2, _m, _s = decide(dom + p["cond"])
            rep.q(name, "unsat", "feasible=%s" % r2, time.time() - t0)
        else:
            rep.broken.append(name + ": solver " + r)
    return cnt


REPLAY_ISA = """// replay of an SMT counterexample: an ISA string of %(n)d bytes must be refused or encoded consistently
use acpi_tables::{rhct::RHCT, Aml};
#[test]
fn replay() {
    let s: &'static str = Box::leak("a".repeat(%(n)d).into_boxed_str());
    let r = std::panic::catch_unwind(move || {
        let mut t = RHCT::new([0; 6], [0; 8], 0, 1);
        t.add_isa_string(s);
        let mut v: Vec<u8> = Vec::new();
        t.to_aml_bytes(&mut v);
        v
    });
    if let Ok(v) = r {
        let node_len = u16::from_le_bytes([v[58], v[59]]) as usize;
        let str_len = u16::from_le_bytes([v[62], v[63]]) as usize;
        assert_eq!(node_len, v.len() - 56, "node length field vs bytes emitted");
        assert_eq!(str_len, %(n)d + 1, "string length field");
    }
}
"""

NARROW = re.compile(r"^\s*(_\d+) = (?:move|copy) (\S+) as (u8|u16|u32) \(IntToInt\);")


def census(fns):
    """every narrowing IntToInt cast in crate code (tests are not in a lib build)"""
    sites = []
    for f in fns:
        for bb, stmts in f.blocks.items():
            for st in stmts:
                m = NARROW.match(st)
                if not m:
                    continue
                src = m.group(2)
                sty = f.locals.get(src.strip("()"), None)
                if sty is None:
                    mm = re.match(r"^\((.*): (\w+)\)$", src)
                    sty = mm.group(2) if mm else "?"
                if sty in WIDTH and WIDTH[sty] > WIDTH[m.group(3)]:
                    sites.append({"fn": re.sub(r"<impl at [^>]*>", "<impl>", f.name), "sig": [t for _k, t in f.params][:1], "from": sty, "to": m.group(3)})
    return sites


def run(prop, tier, seed, what):
    rep = Report()
    out = {"profiles": {}, "functions_encoded": []}
    for profile in ("dev", "release"):
        t0 = time.time()
        try:
            text = dump_mir(profile)
        except Exception as e:  # noqa
            rep.broken.append("MIR dump (%s): %s" % (profile, e))
            continue
        fns, consts = parse_mir(text)
        out["profiles"][profile] = {"functions_in_dump": len(fns), "dump_s": round(time.time() - t0, 1)}
        ex = Exec(fns, consts)
        try:
            if prop == "C07":
                drive_c07(rep, profile, ex)
            elif prop == "C08":
                drive_c08(rep, profile, ex)
            elif prop == "C17":
                drive_c17(rep, profile, ex)
            elif prop == "C18":
                drive_c18_ranges(rep, profile, ex)
                drive_c18_pkglen(rep, profile, ex)
                drive_c18_isa(rep, profile, ex)
                if profile == "release":
                    out["narrowing_cast_census"] = census(fns)
        except Unsupported as e:
            rep.broken.append("%s/%s: not encodable: %s" % (prop, profile, e))
    out["functions_encoded"] = sorted(ENCODED)
    out["queries"] = rep.queries
    out["violations"] = [{k: v[k] for k in ("query", "desc", "profile", "replay_rs") if k in v} for v in rep.violations]
    out["broken"] = rep.broken
    out["wall_s"] = round(time.time() - rep.t0, 1)
    return out


if __name__ == "__main__":
    import json
    import sys
    r = run(sys.argv[1], "quick", 0, True)
    if "--json" in sys.argv:
        print(json.dumps(r, default=str))
        sys.exit(0)
    c = r.pop("narrowing_cast_census", [])
    print(json.dumps(r, indent=1, default=str))
    print("census:", len(c), "narrowing sites;", sum(1 for x in c if x["to"] in ("u8", "u16")), "to u8/u16")
