//! One native test per finding. Each asserts the property on the concrete input the solver
//! produced (or the simplest member of the failing family). They fail on the tree before the
//! corresponding `fix:` commit and pass after it.
use acpi_tables::{Aml, AmlSink};

fn bytes(a: &dyn Aml) -> Vec<u8> {
    let mut v = Vec::new();
    a.to_aml_bytes(&mut v);
    v
}
fn sum(v: &[u8]) -> u8 {
    v.iter().fold(0u8, |a, x| a.wrapping_add(*x))
}
fn len_field(v: &[u8]) -> usize {
    u32::from_le_bytes([v[4], v[5], v[6], v[7]]) as usize
}

#[test]
fn c01_pptt_new_has_valid_checksum() {
    let t = acpi_tables::pptt::PPTT::new(*b"OEMID1", *b"TABLEID1", 1);
    assert_eq!(sum(&bytes(&t)), 0);
}

#[test]
fn c01_tcpa_server_new_has_valid_checksum() {
    let t = acpi_tables::tpm2::TpmServer1_2::new(*b"OEMID1", *b"TABLEID1", 1);
    assert_eq!(sum(&bytes(&t)), 0);
}

#[test]
fn c12_hmat_non_square_matrix_accepts_every_cell_with_target_stride() {
    use acpi_tables::hmat::*;
    let mut s = SystemLocality::new(LocalityType::Memory, DataType::ReadLatency, MinTransferSize::Size64b, 1, 3, 1);
    for i in 0..3 {
        s.set_entry_value(i, 0, 0x100 + i as u16); // (1,0) indexes out of bounds with stride = initiators
    }
    let v = bytes(&s);
    // 32 header + 3*4 initiators + 1*4 targets, then cells row-major with stride = number of targets
    let cells = &v[32 + 12 + 4..];
    assert_eq!(cells, &[0x00, 0x01, 0x01, 0x01, 0x02, 0x01]);
    let mut s = SystemLocality::new(LocalityType::Memory, DataType::ReadLatency, MinTransferSize::Size64b, 1, 1, 3);
    s.set_entry_value(0, 1, 0xaaaa);
    s.set_entry_value(0, 2, 0xbbbb);
    let v = bytes(&s);
    assert_eq!(&v[32 + 4 + 12..], &[0xff, 0xff, 0xaa, 0xaa, 0xbb, 0xbb]);
}

#[test]
fn c02_spcr_length_and_namespace_offset() {
    let v = bytes(&acpi_tables::spcr::SPCR::sbi(*b"OEMID1", *b"TABLEID1", 1));
    assert_eq!(len_field(&v), v.len());
    // NamespaceStringOffset (rev 4): from the start of the table
    assert_eq!(u16::from_le_bytes([v[86], v[87]]) as usize, 88);
    assert_eq!(&v[88..], b".\0");
    assert_eq!(sum(&v), 0);
}

#[test]
fn c02_cedt_chbs_is_32_bytes_with_word_length() {
    use acpi_tables::cedt::*;
    let mut t = CEDT::new(*b"OEMID1", *b"TABLEID1", 1);
    t.add_host_bridge(CxlHostBridge::new(0x11223344, CxlVersion::Cxl2, 0x8_0000_0000));
    let v = bytes(&t);
    assert_eq!(len_field(&v), v.len());
    assert_eq!(v.len(), 36 + 32);
    assert_eq!(u16::from_le_bytes([v[38], v[39]]), 32);
    assert_eq!(&v[40..44], &0x11223344u32.to_le_bytes());
    assert_eq!(&v[44..48], &1u32.to_le_bytes());
    assert_eq!(&v[48..52], &[0, 0, 0, 0]);
    assert_eq!(&v[52..60], &0x8_0000_0000u64.to_le_bytes());
    assert_eq!(&v[60..68], &0x1_0000u64.to_le_bytes());
    assert_eq!(sum(&v), 0);
}

#[test]
fn c02_cedt_rdpas_record_length_equals_bytes_emitted() {
    use acpi_tables::cedt::*;
    let mut t = CEDT::new(*b"OEMID1", *b"TABLEID1", 1);
    t.add_port_association(PortAssociation::new(1, 2, 3, 4, ProtocolType::CxlMem, 0x1234));
    let v = bytes(&t);
    assert_eq!(len_field(&v), v.len());
    assert_eq!(u16::from_le_bytes([v[38], v[39]]) as usize, v.len() - 36);
    assert_eq!(sum(&v), 0);
}

#[test]
fn c02_rqsc_length_counts_the_controller_count_field() {
    use acpi_tables::rqsc::*;
    let mut t = RQSC::new(*b"OEMID1", *b"TABLEID1", 1);
    let v = bytes(&t);
    assert_eq!(len_field(&v), v.len());
    t.add_controller(QoSController::new(ControllerType::Capacity, acpi_tables::gas::GAS::default(), 1, 2, 3));
    let v = bytes(&t);
    assert_eq!(len_field(&v), v.len());
    assert_eq!(sum(&v), 0);
}

#[test]
fn c03_srat_rintc_affinity_is_20_bytes() {
    use acpi_tables::srat::*;
    let mut t = SRAT::new(*b"OEMID1", *b"TABLEID1", 1);
    t.add_rintc_affinity(RintcAffinity::new([1, 2, 3, 4], 0x55667788).enabled());
    t.add_memory_affinity(MemoryAffinity::new(1, 2, 3));
    let v = bytes(&t);
    assert_eq!(len_field(&v), v.len());
    // walk: first entry at 48, step by the entry's own length byte
    assert_eq!(v[48], 7);
    let l = v[49] as usize;
    assert_eq!(l, 20);
    assert_eq!(v[48 + l], 1, "second entry (memory affinity, type 1) must start where the first ends");
    assert_eq!(&v[48 + 8..48 + 12], &[1, 2, 3, 4]);
    assert_eq!(&v[48 + 16..48 + 20], &0x55667788u32.to_le_bytes());
}

#[test]
fn c11_gic_msi_spi_select_flag_polarity() {
    use acpi_tables::madt::GicMsi;
    let v0 = bytes(&GicMsi::new());
    let v1 = bytes(&GicMsi::new().spi_count_and_base(5, 64));
    assert_eq!(u32::from_le_bytes([v0[16], v0[17], v0[18], v0[19]]), 0);
    assert_eq!(u32::from_le_bytes([v1[16], v1[17], v1[18], v1[19]]), 1);
}

#[test]
fn c11_cfmws_type3_restriction_is_its_own_bit() {
    use acpi_tables::cedt::*;
    let mk = || CxlFixedMemory::new(0, 0, InterleaveArithmetic::Modulo, InterleaveGranularity::Granularity256b, InterleaveWays::Ways1, 0);
    let mut a = mk().cxl_type_3_memory();
    a.add_target(*b"CPU0");
    let v = bytes(&a);
    assert_eq!(u16::from_le_bytes([v[32], v[33]]), 1 << 1);
}

#[test]
fn c01_slit_diagonal_assignment_keeps_checksum() {
    let mut t = acpi_tables::slit::SLIT::new(*b"OEMID1", *b"TABLEID1", 1, 2);
    t.set_distance(1, 1, 17);
    let v = bytes(&t);
    assert_eq!(v[44 + 3], 17);
    assert_eq!(sum(&v), 0);
}

fn count_carry<T: Aml>(t: &T) {
    assert_eq!(sum(&bytes(t)), 0);
}

#[test]
fn c01_viot_256th_node_keeps_checksum() {
    use acpi_tables::viot::*;
    let mut t = VIOT::new(*b"OEMID1", *b"TABLEID1", 1);
    for _ in 0..256 {
        t.add_virtio_mmio_iommu(VirtIoMmioIommu::new(0));
    }
    count_carry(&t);
}

#[test]
fn c01_rimt_256th_device_keeps_checksum() {
    use acpi_tables::rimt::*;
    let mut t = RIMT::new(*b"OEMID1", *b"TABLEID1", 1);
    for _ in 0..256 {
        t.add_pcie_root_complex(PcieRootComplex::new(0, 0, false, false, None));
    }
    count_carry(&t);
}

#[test]
fn c01_hest_256th_source_keeps_checksum() {
    use acpi_tables::hest::*;
    let mut t = HEST::new(*b"OEMID1", *b"TABLEID1", 1);
    for _ in 0..256 {
        t.add_structure(PcieAerDevice::new_global());
    }
    count_carry(&t);
}

#[test]
fn c10_register_descriptor_length_is_12() {
    let r = acpi_tables::aml::Register::new(acpi_tables::gas::GAS::default());
    let v = bytes(&r);
    assert_eq!(v[0], 0x82);
    assert_eq!(u16::from_le_bytes([v[1], v[2]]) as usize, v.len() - 3);
}

struct Count(usize);
impl AmlSink for Count {
    fn byte(&mut self, _b: u8) {
        self.0 += 1;
    }
}
#[test]
fn sink_counts() {
    let mut c = Count(0);
    acpi_tables::facs::FACS::new().to_aml_bytes(&mut c);
    assert_eq!(c.0, 64);
}

// ---------------------------------------------------------------- C18: refused, never wrapped
fn refuses<F: FnOnce() -> Vec<u8> + std::panic::UnwindSafe>(f: F) -> bool {
    std::panic::catch_unwind(f).is_err()
}

#[test]
fn c18_package_with_256_elements_is_refused() {
    use acpi_tables::aml::*;
    assert!(refuses(|| {
        let kids: Vec<&dyn Aml> = vec![&ZERO as &dyn Aml; 256];
        bytes(&Package::new(kids))
    }));
    assert!(refuses(|| {
        let mut pb = PackageBuilder::new();
        for _ in 0..256 {
            pb.add_element(&ZERO);
        }
        bytes(&pb)
    }));
    // 255 is representable
    let kids: Vec<&dyn Aml> = vec![&ZERO as &dyn Aml; 255];
    assert_eq!(bytes(&Package::new(kids))[3], 255);
}

#[test]
fn c18_path_with_256_segments_is_refused() {
    let s = vec!["ABCD"; 256].join(".");
    assert!(refuses(move || bytes(&acpi_tables::aml::Path::new(&s))));
    let s = vec!["ABCD"; 255].join(".");
    assert_eq!(bytes(&acpi_tables::aml::Path::new(&s))[1], 255);
}

#[test]
fn c18_method_with_more_than_7_args_is_refused() {
    use acpi_tables::aml::*;
    assert!(refuses(|| bytes(&Method::new("MTHD".into(), 8, false, vec![]))));
    assert!(refuses(|| bytes(&Method::new("MTHD".into(), 0x17, true, vec![]))));
    assert_eq!(bytes(&Method::new("MTHD".into(), 7, false, vec![]))[6], 7);
}

#[test]
fn c18_field_width_of_2_pow_28_is_refused() {
    use acpi_tables::aml::*;
    let mk = |w: usize| Field::new("FLD0".into(), FieldAccessType::Any, FieldLockRule::NoLock, FieldUpdateRule::Preserve, vec![FieldEntry::Reserved(w)]);
    assert!(refuses(move || bytes(&mk(1 << 28))));
    assert!(refuses(move || bytes(&mk(usize::MAX / 2))));
    let v = bytes(&mk((1 << 28) - 1));
    assert_eq!(&v[9..13], &[0xcf, 0xff, 0xff, 0xff]);
}

#[test]
fn c18_pptt_processor_node_longer_than_255_bytes_is_refused() {
    use acpi_tables::pptt::*;
    let mut t = PPTT::new([0; 6], [0; 8], 0);
    let h = t.add_cache(CacheNodeBuilder::default().to_node());
    let mk = move |n: usize| {
        let mut p = ProcessorNode::new(None, 1);
        for _ in 0..n {
            p = p.add_cache(&h);
        }
        p
    };
    assert!(refuses(move || bytes(&mk(59))));
    let v = bytes(&mk(58));
    assert_eq!(v[1] as usize, v.len());
}

#[test]
fn c18_cxims_with_256_bitmaps_is_refused() {
    use acpi_tables::cedt::*;
    assert!(refuses(|| {
        let mut x = XorInterleaveMath::new(InterleaveGranularity::Granularity256b);
        for _ in 0..256 {
            x.add_xormap(0);
        }
        bytes(&x)
    }));
}

#[test]
fn c18_address_range_with_unrepresentable_size_is_refused() {
    use acpi_tables::aml::*;
    assert!(refuses(|| bytes(&AddressSpace::new_io(0x2140u16, 0x00bfu16, None))));
    assert!(refuses(|| bytes(&AddressSpace::new_memory(AddressSpaceCacheable::Cacheable, true, 0u32, u32::MAX, None))));
    assert!(refuses(|| bytes(&AddressSpace::new_io(9355761751539569413u64, 5331267611432300040u64, None))));
    let v = bytes(&AddressSpace::new_bus_number(0u16, 0xffu16));
    assert_eq!(&v[14..16], &[0x00, 0x01]);
}

#[test]
fn c18_slit_too_large_for_its_length_field_is_refused() {
    assert!(refuses(|| bytes(&acpi_tables::slit::SLIT::new([0; 6], [0; 8], 0, 65536))));
    assert!(refuses(|| bytes(&acpi_tables::slit::SLIT::new([0; 6], [0; 8], 0, 0x1_0001))));
}

#[test]
fn c18_rhct_isa_string_of_64k_is_refused() {
    let s: &'static str = Box::leak("a".repeat(65536).into_boxed_str());
    assert!(refuses(move || {
        let mut t = acpi_tables::rhct::RHCT::new([0; 6], [0; 8], 0, 1);
        t.add_isa_string(s);
        bytes(&t)
    }));
}

#[test]
fn c18_hmat_65536_smbios_handles_are_refused() {
    use acpi_tables::hmat::*;
    assert!(refuses(|| {
        let mut m = MemorySideCache::new(0, 0, CacheLevel::One, CacheLevel::One, Associativity::None, WritePolicy::None, 64);
        for i in 0..65536u32 {
            m.add_smbios_handle(i as u16);
        }
        bytes(&m)
    }));
}

#[test]
fn c18_viot_handle_offset_past_16_bits_is_refused() {
    use acpi_tables::viot::*;
    assert!(refuses(|| {
        let mut t = VIOT::new([0; 6], [0; 8], 0);
        for _ in 0..4094 {
            t.add_virtio_mmio_iommu(VirtIoMmioIommu::new(0));
        }
        // 48 + 4094*16 = 65552 > 65535: the next handle cannot be represented
        let h = t.add_virtio_mmio_iommu(VirtIoMmioIommu::new(0));
        t.add_mmio_endpoint(MmioEndpoint::new(0, 0, &h));
        bytes(&t)
    }));
}

#[test]
fn c18_rqsc_controller_longer_than_64k_is_refused() {
    use acpi_tables::rqsc::*;
    assert!(refuses(|| {
        let mut q = QoSController::new(ControllerType::Capacity, acpi_tables::gas::GAS::default(), 0, 0, 0);
        q.add_resource(ResourceStructure::new(ResourceType::Cache, 0, ResourceID::VendorSpecific(9, vec![0; 40000])));
        q.add_resource(ResourceStructure::new(ResourceType::Cache, 0, ResourceID::VendorSpecific(9, vec![0; 40000])));
        bytes(&q)
    }));
    assert!(refuses(|| bytes(&ResourceStructure::new(ResourceType::Cache, 0, ResourceID::VendorSpecific(9, vec![0; 70000])))));
}

#[test]
fn c18_rimt_65536_wires_or_mappings_are_refused() {
    use acpi_tables::rimt::*;
    assert!(refuses(|| {
        let wires: Vec<InterruptWire> = (0..8192).map(|i| InterruptWire::new(i, false, false, 0)).collect();
        // 32 + 8*8192 = 65568 > 65535
        bytes(&Iommu::new(0, None, None, None, Some(wires)))
    }));
    assert!(refuses(|| bytes(&Platform::new(0, "x".repeat(70000), None))));
}
