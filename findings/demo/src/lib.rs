// native demonstrations of the findings listed in /verif/known_findings.json
